#!/usr/bin/env python3
"""meta.json for the fifth wave (ids = delivery number + offset)."""
import json, os, re, glob
V = os.path.dirname(os.path.dirname(os.path.abspath(__file__)))
needs = json.load(open(os.path.join(V, "tools", "seeded_needs.json")))
OFF = {"C01": 8, "C02": 9, "C03": 9, "C04": 8, "C05": 9, "C06": 9, "C07": 9, "C08": 9, "C09": 9, "C10": 9, "C11": 6, "C12": 9, "C13": 7, "C14": 13, "C15": 9, "C16": 9}
matrix = {}
cur = None
for f in sorted(glob.glob("/tmp/mutant_eval/w5/summary_*.txt")) + sorted(glob.glob("/tmp/mutant_eval/w5b/summary_*.txt")):
    for l in open(f):
        m = re.match(r"=== (C\d+)/(\d) checks", l)
        if m:
            cur = f"{m.group(1)}_{int(m.group(2)) + OFF[m.group(1)]}"
            matrix.setdefault(cur, {"tests": None, "demo_mutant": None, "demo_pristine": None, "checks": {}}); continue
        if cur is None: continue
        if l.startswith("demo pristine exit="): matrix[cur]["demo_pristine"] = int(l.strip().split("=")[1])
        if l.startswith("demo mutant exit="): matrix[cur]["demo_mutant"] = int(l.strip().split("=")[1])
        if " passed" in l or " failed" in l: matrix[cur]["tests"] = l.strip("= \n")
        m = re.match(r"check (C\d+) exit=(\d+)", l)
        if m:
            v = "VIOLATION" if m.group(2) == "1" else ("silent" if m.group(2) == "0" else "no verdict (exit " + m.group(2) + ", overloaded machine)")
            if matrix[cur]["checks"].get(m.group(1)) != "VIOLATION": matrix[cur]["checks"][m.group(1)] = v
confirm = {}
for cf in glob.glob("/tmp/repo_confirm5/summary_w5*.txt"):
    for l in open(cf):
        m = re.match(r"(C\d+)/(\d+) check=(C\d+) exit=(\d+) violations=(\d+) first:\s*(.*)", l)
        if m: confirm[f"{m.group(1)}_{m.group(2)}"] = {"check": m.group(3), "exit": int(m.group(4)), "violations": int(m.group(5)), "first_violation": m.group(6)[:300]}
n = 0
for mid in sorted(set(matrix) | set(confirm)):
    d = os.path.join(V, "seeded", mid)
    if not os.path.isdir(d) or mid not in needs: continue
    what, need = needs[mid]
    mx = matrix.get(mid, {"tests": None, "demo_mutant": None, "demo_pristine": None, "checks": {}})
    meta = {"id": mid, "breaks_property": mid.split("_")[0], "change": what, "needs_to_manifest": need,
            "origin": "independent sub-agent given only the property text and its own scratch worktree (no access to /verif)",
            "confirmed": {"existing_test_suite_with_change": mx["tests"], "demo_exit_pristine": mx["demo_pristine"], "demo_exit_with_change": mx["demo_mutant"],
                          "how": "tools/eval_mutant.sh (scratch worktree): git apply, full pytest run, demo with/without, quick checks with TUCAN_REPO=<worktree>"},
            "checks_run_in_scratch_worktree": mx["checks"], "applied_to_repo": confirm.get(mid),
            "applied_to_repo_how": "git -C /repo apply patch.diff; VERIF_OUT=/tmp/... bin/check <check> --tier quick; git -C /repo checkout -- ."}
    json.dump(meta, open(os.path.join(d, "meta.json"), "w"), indent=1); n += 1
print("wrote", n)
