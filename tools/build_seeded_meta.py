#!/usr/bin/env python3
"""Writes seeded/<id>/meta.json from tools/seeded_needs.json and the evaluation summaries
(/tmp/mutant_eval/summary_*.txt = scratch-worktree matrix, /tmp/repo_confirm/summary.txt = applied to /repo)."""
import json, os, re, glob
V = os.path.dirname(os.path.dirname(os.path.abspath(__file__)))
needs = json.load(open(os.path.join(V, "tools", "seeded_needs.json")))
matrix = {}
cur = None
OFFSET = int(os.environ.get("WAVE_OFFSET", "0"))  # wave 2 deliveries k=1..3 are stored as ids k+3
for f in sorted(glob.glob("/tmp/mutant_eval/old/summary_*.txt")) + sorted(glob.glob("/tmp/mutant_eval/summary_*.txt")):
    for l in open(f):
        m = re.match(r"=== (C\d+)/(\d) checks", l)
        if m:
            cur = f"{m.group(1)}_{int(m.group(2)) + OFFSET}"; matrix.setdefault(cur, {"tests": None, "demo_mutant": None, "demo_pristine": None, "checks": {}}); continue
        if cur is None: continue
        if l.startswith("demo pristine exit="): matrix[cur]["demo_pristine"] = int(l.strip().split("=")[1])
        if l.startswith("demo mutant exit="): matrix[cur]["demo_mutant"] = int(l.strip().split("=")[1])
        if " passed" in l or " failed" in l: matrix[cur]["tests"] = l.strip("= \n")
        m = re.match(r"check (C\d+) exit=(\d+)", l)
        if m: matrix[cur]["checks"][m.group(1)] = "VIOLATION" if m.group(2) == "1" else ("silent" if m.group(2) == "0" else "exit " + m.group(2))
confirm = {}
for cf in glob.glob("/tmp/repo_confirm/summary*.txt"):
    for l in open(cf):
        m = re.match(r"(C\d+)/(\d) check=(C\d+) exit=(\d+) violations=(\d+) first:\s*(.*)", l)
        if m: confirm[f"{m.group(1)}_{m.group(2)}"] = {"check": m.group(3), "exit": int(m.group(4)), "violations": int(m.group(5)), "first_violation": m.group(6)[:300]}
for mid, (what, need) in sorted(needs.items()):
    d = os.path.join(V, "seeded", mid)
    if not os.path.isdir(d): continue
    if OFFSET and int(mid.split("_")[1]) <= OFFSET: continue  # earlier waves keep their meta.json
    mx = matrix.get(mid, {})
    meta = {
        "id": mid,
        "breaks_property": mid.split("_")[0],
        "change": what,
        "needs_to_manifest": need,
        "origin": "independent sub-agent given only the property text and its own scratch worktree (no access to /verif)",
        "confirmed": {
            "existing_test_suite_with_change": mx.get("tests"),
            "demo_exit_pristine": mx.get("demo_pristine"),
            "demo_exit_with_change": mx.get("demo_mutant"),
            "how": "tools/eval_mutant.sh <dir> <scratch worktree> '<checks>' : git apply in the scratch worktree, full pytest run, demo with/without, quick checks with TUCAN_REPO=<worktree>",
        },
        "checks_run_in_scratch_worktree": mx.get("checks", {}),
        "applied_to_repo": confirm.get(mid, None),
        "applied_to_repo_how": "git -C /repo apply patch.diff; VERIF_OUT=/tmp/... bin/check <check> --tier quick; git -C /repo checkout -- .",
        "note": "scratch-worktree results marked 'silent' for the target check were obtained with an earlier version of the checks; 'applied_to_repo' is the result with the committed checks" if mx.get("checks", {}).get(mid.split("_")[0]) == "silent" else "",
    }
    json.dump(meta, open(os.path.join(d, "meta.json"), "w"), indent=1)
print("wrote", len(needs))
