#!/bin/bash
# usage: tools/eval_mutant.sh <mutant dir with patch.diff + demo.py> <scratch worktree> "<check ids>"
# Applies the patch in the scratch worktree (never in /repo), confirms tests green + demo red, runs the listed
# quick checks against the scratch tree (TUCAN_REPO), prints one line per check, reverts the worktree.
set -u
M=$1; WT=$2; CHECKS=$3
OUT=/tmp/mutant_eval/$(basename $WT)_$(basename $M); rm -rf $OUT; mkdir -p $OUT
git -C $WT checkout -q -- . ; git -C $WT clean -qfd -e mutants
cd $WT
PYTHONPATH=$WT /venv/bin/python $M/demo.py > $OUT/demo_pristine.log 2>&1; echo "demo pristine exit=$?"
git -C $WT apply $M/patch.diff || { echo "PATCH DOES NOT APPLY"; exit 2; }
PYTHONPATH=$WT /venv/bin/python $M/demo.py > $OUT/demo_mutant.log 2>&1; echo "demo mutant exit=$?"
PYTHONPATH=$WT /venv/bin/python -m pytest -q -p no:cacheprovider -x 2>&1 | tail -1
cd /verif
for c in $CHECKS; do
  TUCAN_REPO=$WT VERIF_OUT=$OUT timeout 1200 bin/check $c --tier quick > $OUT/$c.log 2>&1; rc=$?
  echo "check $c exit=$rc $(grep -c '^VIOLATION' $OUT/$c.log) violations: $(grep -A1 '^VIOLATION' $OUT/$c.log | grep -v '^VIOLATION' | head -1 | cut -c1-200)"
done
git -C $WT checkout -q -- .
