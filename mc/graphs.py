"""E1 state space: labelled coloured graphs as plain ints/tuples, relabelling actions, orbit closure.

No TUCAN, networkx or igraph code in here. A state is (colors, mask):
  colors: tuple of colour indices (into an alphabet of (element, mass, rad)), position = atom label
  mask:   bit b set  <=>  bond between the pair PAIRS[n][b] = (i, j), i < j
The relabelling action swap(k) exchanges labels k and k+1. Adjacent transpositions generate S_n, so
the closure of a state under the actions is exactly its isomorphism class (all numberings).
"""
from __future__ import annotations

from functools import lru_cache
from itertools import combinations, permutations

# colour = (element symbol, mass or None, rad or None)
H = ("H", None, None)
D = ("H", 2, None)
C = ("C", None, None)
C13 = ("C", 13, None)
CRAD = ("C", None, 2)
O = ("O", None, None)
N = ("N", None, None)
CL = ("Cl", None, None)
C13RAD = ("C", 13, 2)
NO256 = ("No", 256, None)
LR = ("Lr", None, None)
MD256 = ("Md", 256, None)
NO = ("No", None, None)
CRAD1 = ("C", None, 1)  # singlet flag: a radical value of its own (written rad=1), not "no radical"
CRAD3 = ("C", None, 3)
SIGMA6 = (C, H, D, C13, CRAD, O)
SIGMA4 = (C, H, C13, CRAD)
SIGMA3 = (C, C13, CRAD)
SIGMA2 = (C, O)
SIGMA1 = (C,)


@lru_cache(None)
def pairs(n: int) -> tuple[tuple[int, int], ...]:
    return tuple(combinations(range(n), 2))


@lru_cache(None)
def pair_index(n: int) -> dict[tuple[int, int], int]:
    return {p: b for b, p in enumerate(pairs(n))}


def edges_of(n: int, mask: int) -> list[tuple[int, int]]:
    ps = pairs(n)
    return [ps[b] for b in range(len(ps)) if mask >> b & 1]


def mask_of(n: int, edges) -> int:
    pi = pair_index(n)
    m = 0
    for a, b in edges:
        m |= 1 << pi[(a, b) if a < b else (b, a)]
    return m


@lru_cache(None)
def _swap_tables(n: int):
    """For each adjacent transposition k: lookup tables mapping 8-bit chunks of the mask."""
    ps = pairs(n)
    pi = pair_index(n)
    nb = len(ps)
    tables = []
    for k in range(n - 1):
        bitmap = []
        for b, (i, j) in enumerate(ps):
            i2 = k + 1 if i == k else k if i == k + 1 else i
            j2 = k + 1 if j == k else k if j == k + 1 else j
            if i2 > j2:
                i2, j2 = j2, i2
            bitmap.append(pi[(i2, j2)])
        chunks = []
        for c0 in range(0, max(nb, 1), 8):
            width = min(8, nb - c0)
            tab = []
            for v in range(1 << max(width, 0)):
                out = 0
                for t in range(width):
                    if v >> t & 1:
                        out |= 1 << bitmap[c0 + t]
                tab.append(out)
            chunks.append(tab)
        tables.append(chunks)
    return tables


def apply_swap(n: int, state, k: int):
    colors, mask = state
    c = list(colors)
    c[k], c[k + 1] = c[k + 1], c[k]
    out = 0
    m = mask
    for tab in _swap_tables(n)[k]:
        out |= tab[m & 255]
        m >>= 8
    return (tuple(c), out)


def apply_perm(n: int, state, p):
    """Atom with label i gets label p[i]."""
    colors, mask = state
    c = [None] * n
    for i in range(n):
        c[p[i]] = colors[i]
    es = [(p[a], p[b]) for a, b in edges_of(n, mask)]
    return (tuple(c), mask_of(n, es))


def orbit(n: int, root):
    """BFS closure of `root` under swap(k). Returns dict state -> perm (root label i -> state label perm[i])
    and the number of actions applied."""
    ident = tuple(range(n))
    seen = {root: ident}
    frontier = [root]
    actions = 0
    while frontier:
        nxt = []
        for st in frontier:
            p = seen[st]
            for k in range(n - 1):
                actions += 1
                st2 = apply_swap(n, st, k)
                if st2 not in seen:
                    # compose: new label of root atom i
                    seen[st2] = tuple(
                        k + 1 if x == k else k if x == k + 1 else x for x in p
                    )
                    nxt.append(st2)
        frontier = nxt
    return seen, actions


def automorphisms(n: int, state):
    """All label permutations fixing the state (brute force over S_n, own encoding)."""
    out = []
    colors, mask = state
    es = edges_of(n, mask)
    eset = set(es)
    for p in permutations(range(n)):
        if any(colors[p[i]] != colors[i] for i in range(n)):
            continue
        ok = True
        for a, b in es:
            x, y = p[a], p[b]
            if ((x, y) if x < y else (y, x)) not in eset:
                ok = False
                break
        if ok:
            out.append(p)
    return out


def distinct_arrangements(multiset):
    """All distinct orderings of a multiset (tuple of colour indices)."""
    return sorted(set(permutations(multiset)))


def masks_with_popcount(nbits: int, e: int):
    for comb in combinations(range(nbits), e):
        m = 0
        for b in comb:
            m |= 1 << b
        yield m


# ----------------------------------------------------------------------------------------------
# own V3000 renderer for E1 states (default spelling; listing deviations via bond_order / flips)
# ----------------------------------------------------------------------------------------------
def render_v3000(n, colors_resolved, bonds, xs=None, chgs=None, btypes=None, atom_order=None) -> str:
    """colors_resolved: list of (el, mass, rad) per label; bonds: list of (a, b) 0-based in listing
    order and orientation."""
    lines = ["", "  mc-e1", "", "  0  0  0     0  0            999 V3000", "M  V30 BEGIN CTAB"]
    lines.append(f"M  V30 COUNTS {n} {len(bonds)} 0 0 0")
    lines.append("M  V30 BEGIN ATOM")
    for i in (atom_order if atom_order is not None else range(n)):
        el, mass, rad = colors_resolved[i]
        x = xs[i] if xs else 0
        s = f"M  V30 {i + 1} {el} {x} 0 0 0"
        if chgs and chgs[i]:
            s += f" CHG={chgs[i]}"
        if rad:
            s += f" RAD={rad}"
        if mass:
            s += f" MASS={mass}"
        lines.append(s)
    lines.append("M  V30 END ATOM")
    if bonds:
        lines.append("M  V30 BEGIN BOND")
        for j, (a, b) in enumerate(bonds):
            t = btypes[j] if btypes else 1
            lines.append(f"M  V30 {j + 1} {t} {a + 1} {b + 1}")
        lines.append("M  V30 END BOND")
    lines.append("M  V30 END CTAB")
    lines.append("M  END")
    return "\n".join(lines) + "\n"
