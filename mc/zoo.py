"""E1 seeds beyond the fixpoint bound: a zoo of hard skeletons (and corpus molecules), every placement of
<=1 (quick) / <=2 (thorough) isotope/radical labels, relabelling actions explored to transposition distance 1
(all n(n-1)/2 transpositions) plus a few fixed long permutations. Isomorphism oracle: own search (mc/ref/iso.py)."""
from __future__ import annotations

import os
from itertools import combinations

from . import graphs as G
from .ref import iso

C = ("C", None, None)
LABELS = [("C", 13, None), ("C", None, 2)]


def _cycle(n):
    return [(i, (i + 1) % n) for i in range(n)]


def _complete(n):
    return [(i, j) for i in range(n) for j in range(i + 1, n)]


def _shrikhande():
    # Cayley graph on Z4 x Z4 with connection set {+-(1,0), +-(0,1), +-(1,1)}
    idx = lambda a, b: (a % 4) * 4 + (b % 4)
    es = set()
    for a in range(4):
        for b in range(4):
            for da, db in ((1, 0), (0, 1), (1, 1)):
                es.add(tuple(sorted((idx(a, b), idx(a + da, b + db)))))
    return sorted(es)


def _rook4():
    idx = lambda a, b: a * 4 + b
    es = set()
    for a in range(4):
        for b in range(4):
            for c in range(4):
                if c != b:
                    es.add(tuple(sorted((idx(a, b), idx(a, c)))))
                if c != a:
                    es.add(tuple(sorted((idx(a, b), idx(c, b)))))
    return sorted(es)


def _cfi_k4(twist):
    """CFI construction over K4: per base vertex v (degree 3) four 'even subset' nodes, per base edge two nodes
    e0/e1; a vertex node for subset S is joined to e1 if e in S else e0. Twisting one edge swaps e0/e1 at one end."""
    base_edges = _complete(4)
    nodes = {}
    es = []

    def nid(key):
        if key not in nodes:
            nodes[key] = len(nodes)
        return nodes[key]

    for e in base_edges:
        nid(("e", e, 0))
        nid(("e", e, 1))
    for v in range(4):
        inc = [e for e in base_edges if v in e]
        for k in (0, 2):
            for S in combinations(inc, k):
                a = nid(("v", v, S))
                for e in inc:
                    bit = 1 if e in S else 0
                    if twist and e == base_edges[0] and v == e[0]:
                        bit ^= 1
                    es.append(tuple(sorted((a, nid(("e", e, bit))))))
    return len(nodes), sorted(set(es))


def seeds(tier):
    """name -> (n, edges). Pairs that are WL-equivalent but non-isomorphic share a 'family' prefix."""
    S = {}
    for n in range(3, 13):
        S[f"cycle{n}"] = (n, _cycle(n))
    for n in range(2, 9):
        S[f"K{n}"] = (n, _complete(n))
    S["prism"] = (6, [(0, 1), (1, 2), (2, 0), (3, 4), (4, 5), (5, 3), (0, 3), (1, 4), (2, 5)])
    S["K33"] = (6, [(i, j) for i in range(3) for j in range(3, 6)])
    S["cube"] = (8, [(0, 1), (1, 2), (2, 3), (3, 0), (4, 5), (5, 6), (6, 7), (7, 4), (0, 4), (1, 5), (2, 6), (3, 7)])
    S["wagner"] = (8, _cycle(8) + [(i, i + 4) for i in range(4)])
    S["petersen"] = (10, [(i, (i + 1) % 5) for i in range(5)] + [(5 + i, 5 + (i + 2) % 5) for i in range(5)] + [(i, i + 5) for i in range(5)])
    S["2xC3"] = (6, [(0, 1), (1, 2), (2, 0), (3, 4), (4, 5), (5, 3)])
    S["2xC4"] = (8, _cycle(4) + [(4 + a, 4 + b) for a, b in _cycle(4)])
    S["star7"] = (8, [(0, i) for i in range(1, 8)])
    S["path9"] = (9, [(i, i + 1) for i in range(8)])
    S["K44"] = (8, [(i, j) for i in range(4) for j in range(4, 8)])
    S["shrikhande"] = (16, _shrikhande())
    S["rook4x4"] = (16, _rook4())
    n0, e0 = _cfi_k4(False)
    n1, e1 = _cfi_k4(True)
    S["cfi-k4"] = (n0, e0)
    S["cfi-k4-twisted"] = (n1, e1)
    # multi-component seeds: a cage plus as many isolated atoms as it has independent rings (bonds == atoms - 1)
    for base, extra in (("K4", 3), ("prism", 4), ("K33", 4), ("cube", 5)):
        n0, e0 = S[base]
        S[f"{base}+{extra} atoms"] = (n0 + extra, list(e0))
    n0, e0 = S["prism"]
    S["prism+2 bonded pairs"] = (n0 + 4, list(e0) + [(n0, n0 + 1), (n0 + 2, n0 + 3)])
    np_, ep = S["prism"]
    nk, ek = S["K33"]
    S["prism+K33+16 atoms"] = (np_ + nk + 16, list(ep) + [(a + np_, b + np_) for a, b in ek])
    # hetero cages/rings closed by bridging hydrogens
    S["heterocubane (LiH)4"] = S["cube"]
    hp = [(i, (i + 1) % 6) for i in range(6)] + [(6 + i, 6 + (i + 1) % 6) for i in range(6)] + [(i, i + 6) for i in range(6)]
    S["hexagonal prism (LiH)6"] = (12, hp)
    S["cyclo-(BeH2)4"] = (12, [(i, (i + 1) % 8) for i in range(8)] + [(0, 8), (2, 9), (4, 10), (6, 11)])
    if tier == "quick":
        for k in ("cycle11", "cycle12", "K8", "cycle9", "cycle10"):
            S.pop(k, None)
    return S


LI = ("Li", None, None)
BE = ("Be", None, None)
HY = ("H", None, None)
BASE = {
    "heterocubane (LiH)4": [LI, HY, LI, HY, HY, LI, HY, LI],
    "hexagonal prism (LiH)6": [LI, HY, LI, HY, LI, HY, HY, LI, HY, LI, HY, LI],
    "cyclo-(BeH2)4": [BE, HY, BE, HY, BE, HY, BE, HY, HY, HY, HY, HY],
}


def base_colours(name, n):
    return list(BASE.get(name, [C] * n))


# groups of seeds among which string equality must coincide with isomorphism
NEAR_MISS_GROUPS = [["cycle6", "2xC3", "prism", "K33"], ["cycle8", "2xC4", "cube", "wagner", "K44"],
                    ["shrikhande", "rook4x4"], ["cfi-k4", "cfi-k4-twisted"], ["petersen", "cycle10"]]


def _lab(col, kind):
    """Label an atom of colour `col`: kind 0 = isotope, kind 1 = radical."""
    el = col[0]
    return (el, {"C": 13, "H": 2, "Li": 6, "Be": 10}.get(el, 99), None) if kind == 0 else (el, None, 2)


def placements(n, maxlabels, base=None):
    """All colourings with <= maxlabels labelled atoms (each label kind) on top of the base colouring."""
    base = list(base) if base else [C] * n
    yield tuple(base)
    for kind in (0, 1):
        for i in range(n):
            c = list(base)
            c[i] = _lab(base[i], kind)
            yield tuple(c)
    if maxlabels >= 2:
        for i, j in combinations(range(n), 2):
            for ka, kb in ((0, 0), (0, 1), (1, 0), (1, 1)):
                c = list(base)
                c[i] = _lab(base[i], ka)
                c[j] = _lab(base[j], kb)
                yield tuple(c)


def relabelings(n, full_transpositions=True):
    """Identity, all transpositions (distance 1), reversal, rotation, an interleave."""
    ident = list(range(n))
    yield tuple(ident)
    pairs = combinations(range(n), 2) if full_transpositions else ((i, i + 1) for i in range(n - 1))
    for i, j in pairs:
        p = list(ident)
        p[i], p[j] = j, i
        yield tuple(p)
    yield tuple(reversed(ident))
    yield tuple((i + 1) % n for i in ident)
    yield tuple(list(range(0, n, 2)) + list(range(1, n, 2)))


def adj(n, edges):
    a = [[] for _ in range(n)]
    for i, j in edges:
        a[i].append(j)
        a[j].append(i)
    return a


def run_seed(job):
    """One seed: all placements x all relabelings through the real pipeline."""
    from tucan.canonicalization import canonicalize_molecule
    from tucan.io import graph_from_molfile_text
    from tucan.parser.parser import graph_from_tucan
    from tucan.serialization import serialize_molecule

    from .e1 import canon_signature, refine_once
    from .props_strings import encode_graph

    props, name, n, edges, chunk, full = job
    res = {"exec": 0, "states": 0, "transitions": 0, "vios": [], "roots": [], "nontrivial": 0}
    a0 = adj(n, edges)
    for cols in chunk:
        root = None
        for p in relabelings(n, full):
            c2 = [None] * n
            for i in range(n):
                c2[p[i]] = cols[i]
            e2 = sorted(tuple(sorted((p[a], p[b]))) for a, b in edges)
            xs = [0] * n
            for i in range(n):
                xs[p[i]] = i + 1  # x coordinate = original atom + 1 (tracer)
            text = G.render_v3000(n, c2, e2, xs)
            res["states"] += 1
            res["transitions"] += 1
            try:
                g = graph_from_molfile_text(text)
                gc = canonicalize_molecule(g)
                sig = canon_signature(gc)
                s = serialize_molecule(gc)
            except Exception as ex:
                res["vios"].append((f"zoo|exc|{type(ex).__name__}", {"kind": "zoo", "n": n, "seed": name, "molfile": text,
                                                                       "summary": f"{name}: pipeline raised {ex!r}"}))
                continue
            res["exec"] += 1
            cls = [None] * n
            for _, d in gc.nodes(data=True):
                cls[int(round(d["x_coord"])) - 1] = d["partition"]
            if root is None:
                root = (s, sig, cls, text)
                if len(set(cls)) < n:
                    res["nontrivial"] += 1
            else:
                if "C01" in props and s != root[0]:
                    res["vios"].append(("C01|zoo", {"kind": "e1-pair", "n": n, "seed": name, "molfile_a": root[3], "molfile_b": text,
                                                   "tucan_a": root[0], "tucan_b": s,
                                                   "summary": f"{name}: relabelling changes the string: {root[0][:80]!r} vs {s[:80]!r}"}))
                if "C04" in props and sig != root[1]:
                    res["vios"].append(("C04|zoo", {"kind": "e1-pair", "n": n, "seed": name, "molfile_a": root[3], "molfile_b": text,
                                                   "tucan_a": root[0], "tucan_b": s,
                                                   "summary": f"{name}: relabelling changes the canonical graph"}))
                if "C13" in props and cls != root[2]:
                    res["vios"].append(("C13|zoo|label-dependent", {"kind": "e1-pair", "n": n, "seed": name, "molfile_a": root[3],
                                                                   "molfile_b": text, "perm": list(p),
                                                                   "summary": f"{name}: classes depend on numbering: {root[2]} vs {cls}"}))
            if "C13" in props and p == tuple(range(n)):
                if not refine_once(n, list(cols), cls, a0):
                    res["vios"].append(("C13|zoo|equitable", {"kind": "zoo", "n": n, "seed": name, "molfile": text,
                                                             "summary": f"{name}: partition not monochromatic/equitable: {cls}"}))
        if root is None:
            continue
        s = root[0]
        if "C03" in props:
            try:
                g2 = graph_from_tucan(s)
                n2, cols2, bonds2 = encode_graph(g2)
                ok = n2 == n and len(bonds2) == len(edges) and iso.isomorphic(list(cols), a0, cols2, adj(n2, bonds2))
                s2 = serialize_molecule(canonicalize_molecule(g2))
                res["exec"] += 1
                if not ok:
                    res["vios"].append(("C03|zoo|iso", {"kind": "string-of-molfile", "n": n, "molfile": root[3], "tucan": s,
                                                       "summary": f"{name}: parse(tucan(G)) is not isomorphic to G"}))
                elif s2 != s:
                    res["vios"].append(("C03|zoo|fixedpoint", {"kind": "string-of-molfile", "n": n, "molfile": root[3], "tucan": s,
                                                              "summary": f"{name}: not a fixed point: {s2[:80]!r}"}))
            except Exception as ex:
                res["vios"].append(("C03|zoo|exc", {"kind": "string-of-molfile", "n": n, "molfile": root[3], "tucan": s,
                                                   "summary": f"{name}: {type(ex).__name__}: {ex}"}))
        res["roots"].append((cols, s, root[3]))
    return res


def cross_placements(job):
    """All label placements of one seed: strings equal <=> isomorphic."""
    prop, name, n, edges, roots = job
    a0 = adj(n, edges)
    res = {"vios": [], "iso_checks": 0, "classes": 0, "strings": {}}
    groups = {}
    for cols, s, text in roots:
        groups.setdefault(s, []).append((cols, text))
    res["classes"] = len(groups)
    reps = []
    for s, members in groups.items():
        c0, t0 = members[0]
        res["strings"][s] = t0
        if prop == "C02":
            for cols, text in members[1:]:
                res["iso_checks"] += 1
                if sorted(map(repr, cols)) != sorted(map(repr, c0)) or not iso.isomorphic(list(cols), a0, list(c0), a0):
                    res["vios"].append(("C02|zoo|collision", {"kind": "e1-pair-differ", "n": n, "seed": name, "molfile_a": t0,
                                                             "molfile_b": text, "tucan": s,
                                                             "summary": f"{name}: two non-isomorphic label placements share {s[:100]!r}"}))
                    break
        reps.append((s, c0, t0))
    if prop == "C01":
        for i in range(len(reps)):
            for j in range(i):
                si, ci, ti = reps[i]
                sj, cj, tj = reps[j]
                if sorted(map(repr, ci)) != sorted(map(repr, cj)):
                    continue
                res["iso_checks"] += 1
                if iso.isomorphic(list(ci), a0, list(cj), a0):
                    res["vios"].append(("C01|zoo|symmetric-placement", {
                        "kind": "e1-pair", "n": n, "seed": name, "molfile_a": tj, "molfile_b": ti, "tucan_a": sj, "tucan_b": si,
                        "summary": f"{name}: the same molecule (label on a symmetry-equivalent atom) gets {sj[:80]!r} and {si[:80]!r}"}))
    return res


def _zoo_seq_job(job):
    (n1, e1_), (n2, e2_), a, b = job
    from .props_strings import tucan_of
    from tucan.io import graph_from_molfile_text

    sa = tucan_of(graph_from_molfile_text(G.render_v3000(n1, [C] * n1, e1_)))
    sb = tucan_of(graph_from_molfile_text(G.render_v3000(n2, [C] * n2, e2_)))
    return sa, sb


def corpus_seeds(tier):
    """Corpus molfiles as seeds: (name, n, cols, edges). Imported through the library reader (any molecule is a
    legitimate seed); relabelled descriptions are rendered by my renderer."""
    from tucan.io import graph_from_molfile_text

    from .common import REPO
    from .props_strings import encode_graph

    d = os.path.join(REPO, "tests", "molfiles")
    out = []
    if not os.path.isdir(d):
        return out
    for name in sorted(os.listdir(d)):
        p = os.path.join(d, name, name + ".mol")
        if not os.path.exists(p):
            continue
        try:
            with open(p) as f:
                g = graph_from_molfile_text(f.read())
            n, cols, bonds = encode_graph(g)
        except Exception:
            continue
        out.append((name, n, cols, bonds))
    out.sort(key=lambda t: (t[1], t[0]))
    if tier == "quick":
        out = [t for t in out if t[1] <= 30][:60]
    else:
        out = [t for t in out if t[1] <= 200]
    return out


def run_corpus(job):
    from tucan.canonicalization import canonicalize_molecule
    from tucan.io import graph_from_molfile_text
    from tucan.serialization import serialize_molecule

    from .e1 import canon_signature

    props, name, n, cols, edges, full = job
    res = {"exec": 0, "states": 0, "transitions": 0, "vios": [], "nontrivial": 0}
    root = None
    for p in relabelings(n, full):
        c2 = [None] * n
        for i in range(n):
            c2[p[i]] = tuple(cols[i])
        e2 = sorted(tuple(sorted((p[a], p[b]))) for a, b in edges)
        xs = [0] * n
        for i in range(n):
            xs[p[i]] = i + 1
        text = G.render_v3000(n, c2, e2, xs)
        res["states"] += 1
        res["transitions"] += 1
        try:
            gc = canonicalize_molecule(graph_from_molfile_text(text))
            sig = canon_signature(gc)
            s = serialize_molecule(gc)
        except Exception as ex:
            res["vios"].append((f"corpus|exc|{type(ex).__name__}", {"kind": "zoo", "n": n, "seed": name, "molfile": text,
                                                                      "summary": f"{name}: pipeline raised {ex!r}"}))
            continue
        res["exec"] += 1
        cls = [None] * n
        for _, d in gc.nodes(data=True):
            cls[int(round(d["x_coord"])) - 1] = d["partition"]
        if root is None:
            root = (s, sig, cls, text)
            if len(set(cls)) < n:
                res["nontrivial"] += 1
            continue
        if "C01" in props and s != root[0]:
            res["vios"].append(("C01|corpus", {"kind": "e1-pair", "n": n, "seed": name, "molfile_a": root[3], "molfile_b": text,
                                              "tucan_a": root[0], "tucan_b": s, "summary": f"corpus {name}: relabelling changes the string"}))
        if "C04" in props and sig != root[1]:
            res["vios"].append(("C04|corpus", {"kind": "e1-pair", "n": n, "seed": name, "molfile_a": root[3], "molfile_b": text,
                                              "tucan_a": root[0], "tucan_b": s, "summary": f"corpus {name}: relabelling changes the canonical graph"}))
        if "C13" in props and cls != root[2]:
            res["vios"].append(("C13|corpus|label-dependent", {"kind": "e1-pair", "n": n, "seed": name, "molfile_a": root[3], "molfile_b": text,
                                                              "perm": list(p), "summary": f"corpus {name}: classes depend on numbering"}))
    return res


def run_all(rep, prop, tier):
    """Zoo + corpus sub-engine for C01/C02/C03/C04/C13; adds coverage and violations to rep."""
    from .common import pmap

    props = frozenset([prop])
    S = seeds(tier)
    maxlabels = 1 if tier == "quick" else 2
    jobs = []
    for name, (n, edges) in S.items():
        ml = maxlabels if n <= 12 else 1
        pl = list(placements(n, ml, base_colours(name, n)))
        csz = max(1, min(len(pl), 600 // max(1, n * n // 4)))
        for c0 in range(0, len(pl), csz):
            jobs.append((props, name, n, edges, pl[c0:c0 + csz], n <= 16))
    jobs.sort(key=lambda j: -(j[2] ** 3) * len(j[4]))
    roots_by_seed = {}
    for job, res in pmap(run_seed, jobs):
        rep.add(states=res["states"], transitions=res["transitions"], traces_validated_against_impl=res["exec"],
                distinct_nontrivial=res["nontrivial"], zoo_executions=res["exec"])
        for key, case in res["vios"]:
            if key.startswith(prop):
                rep.violation(key, case)
            elif key.startswith("zoo|"):
                rep.violation(f"{prop}|{key}", case)
        roots_by_seed.setdefault(job[1], []).extend(res["roots"])
    if prop in ("C01", "C02"):
        # across label placements of one seed: equal strings <=> isomorphic (own search)
        owner = {}
        for job, res in pmap(cross_placements, [(prop, name, S[name][0], S[name][1], roots) for name, roots in roots_by_seed.items()]):
            for key, case in res["vios"]:
                rep.violation(key, case)
            rep.add(zoo_isomorphism_checks=res["iso_checks"], zoo_placement_classes=res["classes"])
            if prop == "C02":
                for s, text in res["strings"].items():
                    name = job[1]
                    if s in owner and owner[s][0] != name:
                        o = owner[s]
                        n1, e1 = S[o[0]]
                        n2, e2 = S[name]
                        if not iso.isomorphic(base_colours(o[0], n1), adj(n1, e1), base_colours(name, n2), adj(n2, e2)):
                            rep.violation("C02|zoo|collision-across-seeds", {
                                "kind": "e1-pair-differ", "n": n2, "molfile_a": o[1], "molfile_b": text, "tucan": s,
                                "summary": f"non-isomorphic skeletons {o[0]} and {name} share {s[:100]!r}"})
                    else:
                        owner[s] = (name, text)
        if prop == "C02":
            rep.add(zoo_distinct_strings=len(owner))
            seqs = [(a, b) for grp in NEAR_MISS_GROUPS for a in grp for b in grp if a != b and a in S and b in S]
            nseq = 0
            for job, (sa, sb) in pmap(_zoo_seq_job, [(S[a], S[b], a, b) for a, b in seqs]):
                nseq += 1
                if sa == sb:
                    rep.violation("C02|zoo|pair-in-sequence", {"kind": "zoo-sequence", "n": job[1][0], "seed_a": job[2], "seed_b": job[3],
                                                               "summary": f"{job[2]} then {job[3]} canonicalized in sequence share {sa[:100]!r}"})
            rep.add(zoo_near_miss_pairs_in_sequence=nseq)
    if prop in ("C01", "C04", "C13"):
        cj = [(props, name, n, cols, edges, n <= 30) for name, n, cols, edges in corpus_seeds(tier)]
        cj.sort(key=lambda j: -j[2])
        for job, res in pmap(run_corpus, cj):
            rep.add(states=res["states"], transitions=res["transitions"], traces_validated_against_impl=res["exec"],
                    distinct_nontrivial=res["nontrivial"], corpus_executions=res["exec"])
            for key, case in res["vios"]:
                if key.startswith(prop):
                    rep.violation(key, case)
                elif key.startswith("corpus|"):
                    rep.violation(f"{prop}|{key}", case)
        rep.add(corpus_seeds=len(cj))
    if prop in ("C01", "C02", "C04", "C13"):
        chains_engine(rep, prop, tier)
    rep.add(zoo_seeds=sorted(S), zoo_max_labels=maxlabels)
    rep.assumptions.append("above the fixpoint bound: relabellings to transposition distance 1 (+3 long permutations) of named seeds; "
                           "isomorphism by own refinement+backtracking search (validated against orbit tables for n<=5)")


# ----------------------------------------------------------------------------------------------
# decorated chains and rings: every colouring of P_n / C_n over a small element alphabet
# (refinement needs many rounds and information has to travel along the chain)
# ----------------------------------------------------------------------------------------------
CHAIN_COLOURS = [("C", None, None), ("H", None, None), ("N", None, None), ("O", None, None), ("C", 13, None), ("C", 14, 2),
                 ("H", 2, None), ("O", 18, None), ("Cl", 37, 2)]


def chain_jobs(tier):
    from itertools import product

    jobs = []
    nmax = 8 if tier == "quick" else 9
    for n in range(2, nmax + 1):
        k = 4 if n <= 8 else 3
        reps = []
        for cs in product(range(k), repeat=n):
            if cs <= cs[::-1]:
                reps.append(cs)
        for c0 in range(0, len(reps), 1500):
            jobs.append(("path", n, reps[c0:c0 + 1500]))
    for n in range(3, (8 if tier == "quick" else 10)):
        k = 3
        reps = []
        for cs in product(range(k), repeat=n):
            images = []
            for r in range(n):
                rot = cs[r:] + cs[:r]
                images.append(rot)
                images.append(rot[::-1])
            if cs == min(images):
                reps.append(cs)
        for c0 in range(0, len(reps), 1500):
            jobs.append(("ring", n, reps[c0:c0 + 1500]))
    return jobs


def run_chain_chunk(job):
    from tucan.canonicalization import canonicalize_molecule
    from tucan.io import graph_from_molfile_text
    from tucan.serialization import serialize_molecule

    from .e1 import canon_signature, refine_once

    props, (kind, n, reps) = job
    res = {"exec": 0, "states": 0, "transitions": 0, "vios": [], "strings": [], "nontrivial": 0}
    edges = [(i, i + 1) for i in range(n - 1)] + ([(0, n - 1)] if kind == "ring" else [])
    a0 = adj(n, edges)
    perms = [tuple(range(n)), tuple(range(n - 1, -1, -1)), tuple(list(range(0, n, 2)) + list(range(1, n, 2)))]
    for cs in reps:
        cols = [CHAIN_COLOURS[c] for c in cs]
        root = None
        for p in perms:
            c2 = [None] * n
            for i in range(n):
                c2[p[i]] = cols[i]
            e2 = sorted(tuple(sorted((p[a], p[b]))) for a, b in edges)
            xs = [0] * n
            for i in range(n):
                xs[p[i]] = i + 1
            text = G.render_v3000(n, c2, e2, xs)
            res["states"] += 1
            res["transitions"] += 1
            try:
                gc = canonicalize_molecule(graph_from_molfile_text(text))
                sig = canon_signature(gc)
                s = serialize_molecule(gc)
            except Exception as ex:
                res["vios"].append((f"chains|exc|{type(ex).__name__}", {"kind": "zoo", "n": n, "seed": kind, "molfile": text,
                                                                          "summary": f"{kind}{n} {cs}: pipeline raised {ex!r}"}))
                continue
            res["exec"] += 1
            cls = [None] * n
            for _, d in gc.nodes(data=True):
                cls[int(round(d["x_coord"])) - 1] = d["partition"]
            if root is None:
                root = (s, sig, cls, text)
                if len(set(cls)) >= 4:
                    res["nontrivial"] += 1
                if "C13" in props and not refine_once(n, cols, cls, a0):
                    res["vios"].append(("C13|chains|equitable", {"kind": "zoo", "n": n, "seed": kind, "molfile": text,
                                                                "summary": f"{kind}{n} colours={''.join(c[0] for c in cols)}: partition "
                                                                           f"not monochromatic/equitable: {cls}"}))
                continue
            if "C01" in props and s != root[0]:
                res["vios"].append(("C01|chains", {"kind": "e1-pair", "n": n, "molfile_a": root[3], "molfile_b": text, "tucan_a": root[0],
                                                  "tucan_b": s, "summary": f"{kind}{n}: renumbering changes the string {root[0]!r} vs {s!r}"}))
            if "C04" in props and sig != root[1]:
                res["vios"].append(("C04|chains", {"kind": "e1-pair", "n": n, "molfile_a": root[3], "molfile_b": text, "tucan_a": root[0],
                                                  "tucan_b": s, "summary": f"{kind}{n}: renumbering changes the canonical graph"}))
            if "C13" in props and cls != root[2]:
                res["vios"].append(("C13|chains|label-dependent", {"kind": "e1-pair", "n": n, "molfile_a": root[3], "molfile_b": text,
                                                                  "perm": list(p), "summary": f"{kind}{n}: classes depend on numbering: {root[2]} vs {cls}"}))
        if root and "C02" in props:
            res["strings"].append((root[0], root[3]))
    return res


def long_labelled_chain_jobs(tier):
    """Chains of 12 and 17 atoms (quick) with every pair of labelled positions: multi-digit canonical indices, two labelled
    atoms of one element far apart; three numberings each (run_chain_chunk)."""
    from itertools import combinations as comb

    jobs = []
    for n in ((12, 17) if tier == "quick" else (10, 12, 17, 18, 25)):
        reps = []
        for i, j in comb(range(n), 2):
            cs = [0] * n
            cs[i] = 4
            cs[j] = 5 if (i + j) % 2 else 4
            reps.append(tuple(cs))
        for c0 in range(0, len(reps), 40):
            jobs.append(("path", n, reps[c0:c0 + 40]))
    # two labelled atoms of different elements separated by an element block of every size: D-(C)k-18O and
    # D-(C)k-37Cl(rad): every difference between the two labelled canonical indices (collisions mod 8, 16, ...)
    for k in range(1, (21 if tier == "quick" else 41)):
        jobs.append(("path", k + 2, [tuple([6] + [0] * k + [7]), tuple([6] + [0] * k + [8])]))
    return jobs


def long_chain_job(job):
    """O-(C)n chain: the partition must be discrete (every atom is at a different distance from the oxygen), i.e.
    refinement really ran to its fixpoint after ~n rounds; checked with own refinement round."""
    from tucan.canonicalization import canonicalize_molecule
    from tucan.io import graph_from_molfile_text

    from .e1 import refine_once

    n = job
    cols = [("O", None, None)] + [C] * (n - 1)
    edges = [(i, i + 1) for i in range(n - 1)]
    xs = [i + 1 for i in range(n)]
    gc = canonicalize_molecule(graph_from_molfile_text(G.render_v3000(n, cols, edges, xs)))
    cls = [None] * n
    for _, d in gc.nodes(data=True):
        cls[int(round(d["x_coord"])) - 1] = d["partition"]
    ok = refine_once(n, cols, cls, adj(n, edges))
    return ok, len(set(cls))


def chains_engine(rep, prop, tier):
    from .common import pmap

    props = frozenset([prop])
    if prop == "C13":
        for n, (ok, ncls) in pmap(long_chain_job, [2050] if tier == "quick" else [2050, 4100]):
            rep.add(states=1, transitions=1, traces_validated_against_impl=1, long_chain_atoms=n, long_chain_classes=ncls)
            if not ok:
                rep.violation("C13|long-chain|equitable", {"kind": "c13-long-chain", "n": n,
                                                           "summary": f"O-(C){n - 1} chain: partition with {ncls} classes is not equitable "
                                                                      f"(refinement stopped before its fixpoint)"})
    seen = {}
    nchains = 0
    alljobs = chain_jobs(tier) + (long_labelled_chain_jobs(tier) if prop in ("C01", "C04", "C13") else [])
    for job, res in pmap(run_chain_chunk, [(props, j) for j in alljobs]):
        nchains += len(job[1][2])
        rep.add(states=res["states"], transitions=res["transitions"], traces_validated_against_impl=res["exec"],
                distinct_nontrivial=res["nontrivial"], chain_executions=res["exec"])
        for key, case in res["vios"]:
            if key.startswith(prop):
                rep.violation(key, case)
            elif key.startswith("chains|"):
                rep.violation(f"{prop}|{key}", case)
        for s, text in res["strings"]:
            if s in seen:
                rep.violation("C02|chains|collision", {"kind": "e1-pair-differ", "n": job[1][1], "molfile_a": seen[s], "molfile_b": text, "tucan": s,
                                                       "summary": f"two different decorated {job[1][0]}s share {s!r}"})
            else:
                seen[s] = text
    rep.add(decorated_chains_and_rings=nchains)
