"""E3 spaces: token strings, bounded sentence families, edit neighbourhoods. Sentences are token lists."""
from __future__ import annotations

from itertools import combinations, permutations, product

from .ref.periodic import SYMBOLS, Z, hill_order

TOKENS17 = ["C", "H", "Cl", "O", "1", "2", "10", "/", "(", ")", "-", ":", ",", "=", "mass", "rad", "x"]
PUNCT = ["/", "(", ")", "-", ":", ",", "="]
BIGNUM = "9" * 4301


def all_token_strings(L, alphabet=TOKENS17):
    for l in range(0, L + 1):
        for t in product(alphabet, repeat=l):
            yield "".join(t)


def formula_tokens(elems_counts):
    """elems_counts: list of (symbol, count) -> tokens in Hill order, count 1 omitted."""
    d = dict(elems_counts)
    out = []
    for sym in hill_order(d):
        out.append(sym)
        if d[sym] != 1:
            out.append(str(d[sym]))
    return out


def tuple_tokens(a, b):
    return ["(", str(a), "-", str(b), ")"]


def attr_tokens(idx, props):
    out = ["(", str(idx), ":"]
    for i, (k, v) in enumerate(props):
        if i:
            out.append(",")
        out += [k, "=", str(v)]
    out.append(")")
    return out


def sentence(formula, tuples=(), attrs=None):
    toks = list(formula) + ["/"]
    for t in tuples:
        toks += tuple_tokens(*t)
    if attrs is not None:
        toks.append("/")
        for idx, props in attrs:
            toks += attr_tokens(idx, props)
    return toks


E10 = ["C", "Cl", "Cs", "Co", "Cn", "H", "He", "Hf", "B", "Br"]


def family_formulas(max_terms=3, counts=(1, 2, 10), elems=E10):
    for k in range(0, max_terms + 1):
        for es in combinations(elems, k):
            for cs in product(counts, repeat=k):
                yield formula_tokens(list(zip(es, cs)))


def family_tuples(indices=(1, 2, 10), max_tuples=2):
    pairs = [(a, b) for a in indices for b in indices]
    for k in range(0, max_tuples + 1):
        for ts in product(pairs, repeat=k):
            yield ts


def family_blocks(indices=(1, 2, 10), values=(1, 2, 13)):
    kv = [(k, v) for k in ("mass", "rad") for v in values]
    bodies = [(x,) for x in kv] + [(x, y) for x in kv for y in kv]
    return [(i, b) for i in indices for b in bodies]


def family_sentences(tier):
    """Bounded derivation family (grammar-valid; semantically valid or not)."""
    small_formulas = [
        formula_tokens(x) for x in (
            [("C", 1)], [("C", 1), ("H", 4)], [("C", 2), ("H", 6), ("O", 1)], [("H", 2), ("O", 1)],
            [("Cl", 2)], [("C", 10), ("H", 2)], [("H", 1), ("He", 1)], [("B", 1), ("Br", 3)],
            [("C", 1), ("Cl", 1), ("Cs", 1)], [("H", 10)], [], [("Og", 2), ("H", 1)],
        )
    ]
    blocks = family_blocks()
    tuples = list(family_tuples())
    # (a) every formula of the family, with no tuple / one tuple, no attrs / empty attr section / one block
    for f in family_formulas():
        yield sentence(f)
        yield sentence(f, [(1, 2)])
        yield sentence(f, [], [])
        yield sentence(f, [(2, 1)], [(1, (("mass", 2),))])
    # (a2) large indices (beyond CPython's small-int cache, around the atom count)
    big = formula_tokens([("C", 400)])
    idx = (1, 256, 257, 300, 400, 401)
    for a in idx:
        for b in idx:
            yield sentence(big, [(a, b)])
        yield sentence(big, [], [(a, (("mass", 257),))])
        yield sentence(big, [(a, 2)], [(a, (("rad", 300), ("mass", 1000)))])
    # (b) small formulas x all tuple lists x (none | one block)
    for f in small_formulas:
        for ts in tuples:
            yield sentence(f, ts)
            for b in blocks:
                yield sentence(f, ts, [b])
    # (c) few formulas x <=1 tuple x two blocks
    two_block_formulas = small_formulas[:2] if tier == "quick" else small_formulas[:5]
    for f in two_block_formulas:
        for ts in ([], [(1, 2)], [(2, 10)], [(1, 1)]):
            for b1 in blocks:
                for b2 in blocks:
                    yield sentence(f, ts, [b1, b2])


def formula_family_strings():
    """(iv) all single-element formulas; all element pairs with and without C/H (Hill order is a total order
    on symbols, pairs exercise every comparison); wrong-order pairs must be rejected."""
    for s in SYMBOLS:
        yield s + "/"
        yield s + "2/(1-2)"
    for a, b in combinations(SYMBOLS, 2):
        for pre in ("", "C", "CH"):
            if pre and (a in ("C", "H") or b in ("C", "H")):
                continue
            yield pre + a + b + "/"
            yield pre + b + a + "/"
    for a in SYMBOLS:
        if a not in ("C", "H"):
            yield f"C{a}H/"
            yield f"{a}C/"
            yield f"H{a}/" if a > "H" else f"{a}H/"


BASE_SENTENCES_SRC = [
    # feature-covering canonical and non-canonical sentences (token lists built below)
    ([("C", 1)], [], None),
    ([("C", 1), ("H", 4)], [(1, 5), (2, 5), (3, 5), (4, 5)], None),
    ([("C", 2), ("H", 6), ("O", 1)], [(1, 7), (2, 7), (3, 7), (4, 8), (5, 8), (6, 9), (7, 8), (8, 9)], None),
    ([("C", 2), ("H", 4), ("O", 2)], [(1, 5), (2, 5), (3, 5), (4, 8), (5, 6), (6, 7), (6, 8)], [(4, (("mass", 2),))]),
    ([("H", 2), ("O", 1)], [(1, 3), (2, 3)], [(1, (("mass", 2),)), (2, (("mass", 3), ("rad", 2)))]),
    ([("C", 1), ("Cl", 1), ("H", 3)], [(1, 4), (2, 4), (3, 4), (4, 5)], [(4, (("rad", 2), ("mass", 13)))]),
    ([("C", 10), ("H", 2)], [(1, 3), (2, 12), (3, 4), (4, 5), (5, 6), (6, 7), (7, 8), (8, 9), (9, 10), (10, 11), (11, 12)], [(10, (("mass", 13),))]),
    ([("B", 1), ("Br", 3)], [(1, 2), (1, 3), (1, 4)], None),
    ([("H", 1), ("He", 1), ("Hf", 1)], [], [(3, (("mass", 180),))]),
    ([("Cn", 1), ("Co", 1), ("Cs", 1)], [(1, 2)], []),
    ([], [], None),
    ([("Cl", 2)], [(2, 1), (1, 2)], [(1, (("mass", 35),)), (2, (("mass", 37),))]),
    # a sentence of > 120 characters (messages/excerpts that depend on the input length, columns >= 80)
    ([("C", 12), ("H", 4), ("N", 2)], [(1, 5), (2, 6), (3, 17), (4, 18), (5, 6), (5, 7), (6, 8), (7, 9), (8, 10), (9, 11), (10, 12),
                                       (11, 13), (12, 14), (13, 15), (14, 16), (15, 17), (16, 18)], [(17, (("mass", 15),)), (18, (("rad", 2), ("mass", 14)))]),
]


def base_sentences(tier):
    out = [sentence(formula_tokens(f), t, a) for f, t, a in BASE_SENTENCES_SRC]
    if tier == "thorough":
        # add family members with varied shapes
        for i, s in enumerate(family_sentences("quick")):
            if i % 997 == 0:
                out.append(s)
    return out


def edit_alphabet(tier):
    alph = list(PUNCT) + ["0", "1", "2", "9", "10", "01", "13", " ", "\n", "\t", "c", "h", "cl", "X", "Xy", "D", "T",
                          "mass", "rad", "chg", "Mass", "٣", "１", BIGNUM, "C", "H", "Cl", "O", "N", "He",
                          "Hf", "B", "Br", "Og", "Cn", "Co", "Cs", ";", "*", "+", "."]
    if tier == "thorough":
        alph += [s for s in SYMBOLS if s not in alph]
    return alph


def single_edits(tokens, alph):
    n = len(tokens)
    for i in range(n):
        yield tokens[:i] + tokens[i + 1:]  # delete
        for a in alph:
            if a != tokens[i]:
                yield tokens[:i] + [a] + tokens[i + 1:]  # replace
    for i in range(n + 1):
        for a in alph:
            yield tokens[:i] + [a] + tokens[i:]  # insert
    for i in range(n - 1):
        if tokens[i] != tokens[i + 1]:
            yield tokens[:i] + [tokens[i + 1], tokens[i]] + tokens[i + 2:]  # transpose
