"""Replay a recorded violation against the real code, without any explorer."""
from __future__ import annotations

import json


def _tucan_of_molfile(text):
    from tucan.canonicalization import canonicalize_molecule
    from tucan.io import graph_from_molfile_text
    from tucan.serialization import serialize_molecule

    g = graph_from_molfile_text(text)
    gc = canonicalize_molecule(g)
    return gc, serialize_molecule(gc)


def replay(prop, rec, path):
    kind = rec.get("kind")
    fn = REPLAYERS.get(kind)
    if fn is None:
        print(f"no replayer for kind {kind!r}; record:\n{json.dumps(rec, indent=1)[:2000]}")
        return 2
    bad, msg = fn(prop, rec)
    print(msg)
    if bad:
        print(f"VIOLATION property={prop} replay={path}")
        return 1
    print("replay: property holds on this case now")
    return 0


def _e1_pair(prop, rec):
    from .e1 import canon_signature

    ga, sa = _tucan_of_molfile(rec["molfile_a"])
    gb, sb = _tucan_of_molfile(rec["molfile_b"])
    if prop == "C04":
        a, b = canon_signature(ga), canon_signature(gb)
        return a != b, f"canonical signature A={a}\ncanonical signature B={b}"
    if prop == "C13":
        ca = sorted(d["partition"] for _, d in ga.nodes(data=True))
        cb = sorted(d["partition"] for _, d in gb.nodes(data=True))
        return ca != cb or _cls_by_x(ga, rec.get("perm")) != _cls_by_x(gb, None), (
            f"classes by input atom A={_cls_by_x(ga, None)} B={_cls_by_x(gb, None)} perm={rec.get('perm')}")
    return sa != sb, f"tucan(A)={sa!r}\ntucan(B)={sb!r}"


def _cls_by_x(gc, perm):
    n = gc.number_of_nodes()
    cls = [None] * n
    for _, d in gc.nodes(data=True):
        cls[int(round(d["x_coord"])) - 1] = d["partition"]
    if perm:
        out = [None] * n
        for i in range(n):
            out[perm[i]] = cls[i]
        return out
    return cls


def _e1_listing(prop, rec):
    _, sb = _tucan_of_molfile(rec["molfile_b"])
    return sb != rec["tucan_a"], f"expected {rec['tucan_a']!r}, listing variant gives {sb!r}"


def _e1_collision(prop, rec):
    from . import e1, graphs as G

    out = []
    for k in ("a", "b"):
        n, st = rec[f"n_{k}"], rec[f"state_{k}"]
        st = (tuple(st[0]), st[1])
        out.append(e1.pipeline(n, st)[2])
    return out[0] == out[1], f"molecule A -> {out[0]!r}; non-isomorphic molecule B -> {out[1]!r}"


def _e1_generic(prop, rec):
    """Re-run the shard monitors on the single recorded state."""
    from . import e1, graphs as G

    n = rec["n"]
    st = rec["state"]
    st = (tuple(st[0]), st[1])
    res = {"states": 0, "transitions": 0, "exec": 0, "orbits": [], "vios": [], "nontrivial": 0,
           "listing_exec": 0, "aut_roots": 0, "multi_round": 0, "samples": [], "hist_exec": 0}
    g, gc, s, text = e1.pipeline(n, st, rich=(prop == "C12"))
    out = {"s": s, "sig": e1.canon_signature(gc), "st": st, "perm": tuple(range(n)), "text": text}
    if prop == "C13":
        e1._c13_state(n, st, out["perm"], g, gc, out, out, res["vios"], res)
        e1._c13_root(n, st, out, res["vios"], res)
    elif prop == "C12":
        e1._c12_state(n, st, g, gc, s, res["vios"], res)
        e1._c12_histories(n, st, res["vios"], res)
    return bool(res["vios"]), f"tucan={s!r}; monitor findings: {[v[1]['summary'] for v in res['vios']]}"


def _c10(prop, rec):
    from .props_e3 import replay_c10

    return replay_c10(prop, rec)


def _strings(prop, rec):
    from .props_strings import replay as r

    return r(prop, rec)


def _mvm(prop, rec):
    from .props_e2 import replay_molfile_vs_mol

    return replay_molfile_vs_mol(prop, rec)


def _pair(prop, rec):
    from .props_e2 import replay_pair

    return replay_pair(prop, rec)


def _c09(prop, rec):
    from .props_c09 import replay as r

    return r(prop, rec)


def _c15(prop, rec):
    from .props_c15 import replay as r

    return r(prop, rec)


def _c16(prop, rec):
    from .props_c16 import replay as r

    return r(prop, rec)


def _c14(prop, rec):
    from .props_c14 import replay as r

    return r(prop, rec)


def _pair_differ(prop, rec):
    a = _tucan_of_molfile(rec["molfile_a"])[1]
    b = _tucan_of_molfile(rec["molfile_b"])[1]
    return a == b, f"non-isomorphic molecules: tucan(A)={a!r} tucan(B)={b!r}"


def _zoo(prop, rec):
    try:
        gc, s = _tucan_of_molfile(rec["molfile"])
    except Exception as ex:
        return True, f"pipeline raised {type(ex).__name__}: {ex}"
    if prop == "C13":
        from .e1 import refine_once
        from .props_strings import encode_graph

        n, cols, bonds = encode_graph(gc)
        adj = [[] for _ in range(n)]
        for a, b in bonds:
            adj[a].append(b)
            adj[b].append(a)
        cls = [gc.nodes[i]["partition"] for i in range(n)]
        ok = refine_once(n, cols, cls, adj)
        return not ok, f"classes {cls} equitable/monochromatic: {ok}"
    return False, f"tucan = {s!r}"


def _e1_derived(prop, rec):
    from . import e1

    n = rec["n"]
    st = (tuple(rec["state"][0]), rec["state"][1])
    g, gc, s, text = e1.pipeline(n, st)
    root = {"s": s, "sig": e1.canon_signature(gc)}
    vios = []
    e1._derived(n, st, root, frozenset([prop]), vios, {"transitions": 0, "exec": 0})
    hit = [v[1]["summary"] for v in vios if v[1].get("variant") == rec["variant"]]
    return bool(hit), "; ".join(hit) or f"variant {rec['variant']} agrees with the molfile description ({s!r})"


def _e1_c12_derived(prop, rec):
    from . import e1

    n = rec["n"]
    st = (tuple(rec["state"][0]), rec["state"][1])
    vios = []
    e1._c12_derived_inputs(n, st, vios, {"transitions": 0, "exec": 0})
    hit = [v[1]["summary"] for v in vios if v[1].get("variant") == rec.get("variant")]
    return bool(hit), "; ".join(hit) or "derived inputs are canonicalized faithfully"


def _e1_sequence(prop, rec):
    from . import e1

    n = rec["n"]
    a = (tuple(rec["state_a"][0]), rec["state_a"][1])
    b = (tuple(rec["state_b"][0]), rec["state_b"][1])
    sa = e1.pipeline(n, a)[2]
    sb = e1.pipeline(n, b)[2]
    return sa == sb or sb != rec["expect_b"], f"A -> {sa!r}, then B -> {sb!r} (B alone: {rec['expect_b']!r})"


def _zoo_sequence(prop, rec):
    from . import zoo

    S = zoo.seeds("thorough")
    sa, sb = zoo._zoo_seq_job((S[rec["seed_a"]], S[rec["seed_b"]], rec["seed_a"], rec["seed_b"]))
    return sa == sb, f"{rec['seed_a']} -> {sa[:120]!r}; then {rec['seed_b']} -> {sb[:120]!r}"


def _c13_long(prop, rec):
    from . import zoo

    ok, ncls = zoo.long_chain_job(rec["n"])
    return not ok, f"O-(C){rec['n'] - 1}: {ncls} classes, equitable={ok}"


REPLAYERS = {
    "c13-long-chain": _c13_long,
    "zoo-sequence": _zoo_sequence,
    "e1-sequence": _e1_sequence,
    "e1-c12-derived": _e1_c12_derived,
    "e1-derived": _e1_derived,
    "e1-pair-differ": _pair_differ,
    "zoo": _zoo,
    "c14-hashseed": _c14,
    "c14-history": _c14,
    "c14-schedule": _c14,
    "c16-rng": _c16,
    "c16-seed": _c16,
    "c15": _c15,
    "c09-graph": _c09,
    "c09-string": _c09,
    "molfile-pair": _pair,
    "molfile-vs-mol": _mvm,
    "string-of-molfile": _strings,
    "respelling": _strings,
    "c10-string": _c10,
    "e1-pair": _e1_pair,
    "e1-listing": _e1_listing,
    "e1-collision": _e1_collision,
    "e1": _e1_generic,
    "e1-history": _e1_generic,
}
