"""C14 workload: every public operation on a fixed input alphabet; each item returns a printable result
(value, or exception type + message). Also usable as a script: prints a JSON map item-id -> result digest."""
from __future__ import annotations

import hashlib
import json
import os
import sys

from . import graphs as G
from . import molfile as MF
from .molfile import Atom, Mol


_RETAINED = {}
_PRE = {}


def reset_retained():
    _RETAINED.clear()


def graph_repr(g):
    # atoms and bonds in iteration order (part of the result); attribute dicts compared as mappings
    return repr(([(k, sorted(d.items(), key=lambda kv: str(kv[0]))) for k, d in g.nodes(data=True)],
                 [(a, b, sorted(d.items(), key=lambda kv: str(kv[0]))) for a, b, d in g.edges(data=True)]))


def _mols():
    out = {}
    out["ethanol-d"] = Mol([Atom("C"), Atom("C"), Atom("O"), Atom("H", 0, 0, 2), Atom("H"), Atom("H")],
                           [(0, 1, 1), (1, 2, 1), (2, 3, 1), (0, 4, 1), (0, 5, 1)])
    out["benzene-13C-rad"] = Mol([Atom("C", 0, 0, 13 if i == 2 else 0) for i in range(6)] + [Atom("C", 0, 2)],
                                 [(i, (i + 1) % 6, 1 + i % 2) for i in range(6)] + [(0, 6, 1)])
    out["salt"] = Mol([Atom("Na", 1), Atom("Cl", -1), Atom("O"), Atom("H"), Atom("H")], [(2, 3, 1), (2, 4, 1)])
    out["cube"] = Mol([Atom("C") for _ in range(8)],
                      [(0, 1, 1), (1, 2, 1), (2, 3, 1), (3, 0, 1), (4, 5, 1), (5, 6, 1), (6, 7, 1), (7, 4, 1), (0, 4, 1), (1, 5, 1), (2, 6, 1), (3, 7, 1)])
    out["k33-labelled"] = Mol([Atom("C", 0, 0, 13 if i == 4 else 0) for i in range(6)], [(i, j, 1) for i in range(3) for j in range(3, 6)])
    out["many-elements"] = Mol([Atom(e) for e in ("Zn", "Br", "B", "Cl", "C", "H", "He", "Og", "N", "Na")], [(i, i + 1, 1) for i in range(9)])
    out["single"] = Mol([Atom("Fe", 2, 3, 56, (1.5, -2.25, 1000.125))])
    out["isolated"] = Mol([Atom("H", 0, 0, m) for m in (0, 2, 3, 0, 2)])
    return out


TUCAN_STRINGS = [
    "C2H6O/(1-7)(2-7)(3-7)(4-8)(5-8)(6-9)(7-8)(8-9)", "CH4/(1-5)(2-5)(3-5)(4-5)/(1:mass=2)(5:mass=13,rad=2)",
    "ClH/(1-2)", "C6/(1-2)(2-3)(3-4)(4-5)(5-6)(1-6)/(3:rad=2)", "/", "BBr3/(3-1)(2-1)(1-4)(1-4)", "C10H2/(12-11)",
    "HHeHf//(3:mass=180)", "Og2/(1-2)/(2:mass=294)(1:mass=295)",
    # rejected: lexer error early / late, syntax errors, semantic rejections
    "Xy/", "C2H6O/(1-7)(2-7)(3-7)(4-8)(5-8)(6-9)(7-8)(8-9", "C2H6O/(1-7)(2-7)(3-7)(4-8)(5-8)(6-9)(7-8)(8-9)x", "HC/", "C/(1-1)",
    "C/(1-2)", "C//(1:mass=2,mass=3)", "C//(2:rad=1)", "C1/", "C/(1 -2)", "", "C//(1:chg=1)", "C2/(1-2)/(1:mass=02)",
]


def items():
    """Returns list of (item_id, callable) — callables import the library lazily."""
    out = []
    mols = _mols()
    texts = {}
    for name, M in mols.items():
        texts[f"v3:{name}"] = MF.v3000_text(M)
        try:
            texts[f"v2:{name}"] = MF.v2000_text(M)
        except (AssertionError, KeyError):
            pass
    texts["v3:star"] = MF.v3000_text(mols["cube"], MF.with_(MF.default_spelling(), star=[(0, [0, 3], False, 8, 9, "ALL")]))
    texts["v3:split"] = MF.v3000_text(mols["single"], MF.with_(MF.default_spelling(), splits=[(3, 9), (3, 17)]))
    dplus = Mol([Atom("N", 1), Atom("H", 1, 0, 2), Atom("Cl", -1), Atom("O", -1)], [(0, 3, 1)])
    texts["v2codes:D+"] = MF.v2000_text(dplus, MF.with_(MF.default_v2_spelling(), chg_via="codes", rad_via="codes", dt=[1]))
    texts["v2codes:NH4+"] = MF.v2000_text(Mol([Atom("N", 1), Atom("Cl", -1), Atom("Na", 1)], []),
                                          MF.with_(MF.default_v2_spelling(), chg_via="codes", rad_via="codes"))
    texts["bad:v2codes:D+ no end"] = texts["v2codes:D+"].replace("M  END", "M  EN")
    # two isomers with the same numbers of atoms and bonds (caches keyed on object identity or on counts)
    texts["v3:isoA"] = MF.v3000_text(Mol([Atom("C"), Atom("C"), Atom("O"), Atom("N")], [(0, 1, 1), (1, 2, 1), (2, 3, 1)]))
    texts["v3:isoB"] = MF.v3000_text(Mol([Atom("C"), Atom("C"), Atom("O"), Atom("N")], [(0, 1, 1), (0, 2, 1), (0, 3, 1)]))
    texts["bad:version"] = texts["v3:single"].replace("V3000", "V4000")
    texts["bad:counts"] = texts["v3:single"].replace("COUNTS 1 0", "COUNT 1 0")
    texts["bad:noend"] = texts["v2:ethanol-d"].replace("M  END", "M  EN")
    texts["bad:bondindex"] = texts["v3:ethanol-d"].replace("M  V30 1 1 1 2", "M  V30 1 1 1 9")
    texts["bad:short"] = "x\ny"
    # query/placeholder atom symbols the library does not know: must fail the same way whatever happened before
    texts["bad:pseudo-RX"] = MF.v3000_text(Mol([Atom("C"), Atom("R"), Atom("X")], [(0, 1, 1), (0, 2, 1)]))
    texts["bad:pseudo-XR"] = MF.v3000_text(Mol([Atom("X"), Atom("C"), Atom("R")], [(0, 1, 1), (1, 2, 1)]))
    texts["bad:pseudo-X"] = MF.v3000_text(Mol([Atom("C"), Atom("X")], [(0, 1, 1)]))
    corpus = os.path.join(os.environ.get("TUCAN_REPO", "/repo"), "tests", "molfiles")
    for name in ("TEMPO", "tnt", "water-d2", "chromocene-multi-attachment", "cubane", "Petersen_graph", "C60_C13", "EMIM-BF4", "FeCO5", "benzene"):
        p = os.path.join(corpus, name, name + ".mol")
        if os.path.exists(p):
            with open(p) as f:
                texts[f"corpus:{name}"] = f.read()
    v2 = os.path.join(os.environ.get("TUCAN_REPO", "/repo"), "tests", "molfiles_v2000")
    for name in ("TEMPO", "tnt", "water-d2", "water-t2"):
        p = os.path.join(v2, name, name + ".mol")
        if os.path.exists(p):
            with open(p) as f:
                texts[f"corpus-v2:{name}"] = f.read()

    def op_read(t):
        from tucan.io import graph_from_molfile_text
        return graph_from_molfile_text(t)

    def op_canon(t):
        from tucan.canonicalization import canonicalize_molecule
        from tucan.io import graph_from_molfile_text
        return canonicalize_molecule(graph_from_molfile_text(t))

    def op_tucan(t):
        from tucan.canonicalization import canonicalize_molecule
        from tucan.io import graph_from_molfile_text
        from tucan.serialization import serialize_molecule
        return serialize_molecule(canonicalize_molecule(graph_from_molfile_text(t)))

    def op_write(t):
        from tucan.io import graph_from_molfile_text, graph_to_molfile
        lines = graph_to_molfile(graph_from_molfile_text(t)).split("\n")
        lines[1] = "<timestamp masked>"
        return "\n".join(lines)

    def op_write_canon(t):
        from tucan.canonicalization import canonicalize_molecule
        from tucan.io import graph_from_molfile_text, graph_to_molfile
        lines = graph_to_molfile(canonicalize_molecule(graph_from_molfile_text(t))).split("\n")
        lines[1] = "<timestamp masked>"
        return "\n".join(lines)

    def op_write_calc(t):
        from tucan.io import graph_from_molfile_text, graph_to_molfile
        lines = graph_to_molfile(graph_from_molfile_text(t), calc_coordinates=True).split("\n")
        lines[1] = "<timestamp masked>"
        return "\n".join(lines)

    def op_parse(s):
        from tucan.parser.parser import graph_from_tucan
        return graph_from_tucan(s)

    def op_norm(s):
        from tucan.canonicalization import canonicalize_molecule
        from tucan.parser.parser import graph_from_tucan
        from tucan.serialization import serialize_molecule
        return serialize_molecule(canonicalize_molecule(graph_from_tucan(s)))

    def op_permute(t):
        from tucan.graph_utils import permute_molecule
        from tucan.io import graph_from_molfile_text
        return permute_molecule(graph_from_molfile_text(t), random_seed=0.42)

    for name, t in texts.items():
        for opname, op in (("read", op_read), ("canon", op_canon), ("tucan", op_tucan), ("write", op_write),
                           ("write-canon", op_write_canon), ("permute", op_permute)):
            if name.startswith("bad:") and opname != "read":
                continue
            out.append((f"{opname}|{name}", (lambda op=op, t=t: op(t))))
    for name in ("v3:salt", "v3:ethanol-d", "v3:isolated", "v3:cube", "v3:isoA", "v3:isoB"):
        out.append((f"write-calc|{name}", (lambda t=texts[name]: op_write_calc(t))))
    # operations on a graph object the caller keeps across calls (read once per process/history)
    mols["isohexane"] = Mol([Atom("C") for _ in range(6)], [(0, 1, 1), (1, 2, 1), (2, 3, 1), (3, 4, 1), (1, 5, 1)])
    for name in ("isohexane", "benzene-13C-rad"):
        t = MF.v3000_text(mols[name])

        def retained(t=t, name=name):
            from tucan.io import graph_from_molfile_text
            if name not in _RETAINED:
                _RETAINED[name] = graph_from_molfile_text(t)
            return _RETAINED[name]

        def op_ser_retained(retained=retained):
            from tucan.serialization import serialize_molecule
            return serialize_molecule(retained())

        def op_canon_retained(retained=retained):
            from tucan.canonicalization import canonicalize_molecule
            from tucan.serialization import serialize_molecule
            return serialize_molecule(canonicalize_molecule(retained()))

        out.append((f"serialize-retained|{name}", op_ser_retained))
        out.append((f"canon-retained|{name}", op_canon_retained))
    # single library calls on inputs built beforehand (short bodies for deeper schedule exploration); every call gets
    # its own private copy of the prebuilt input
    def pre(name, canonical=False):
        from tucan.canonicalization import canonicalize_molecule
        from tucan.io import graph_from_molfile_text
        key = (name, canonical)
        if key not in _PRE:
            g = graph_from_molfile_text(texts[name])
            _PRE[key] = canonicalize_molecule(g) if canonical else g
        return _PRE[key].copy()

    for name in ("v3:single", "v3:salt", "v3:isoA"):
        def op_canon_pre(name=name):
            from tucan.canonicalization import canonicalize_molecule
            return canonicalize_molecule(pre(name))

        def op_ser_pre(name=name):
            from tucan.serialization import serialize_molecule
            return serialize_molecule(pre(name, True))

        def op_write_pre(name=name):
            from tucan.io import graph_to_molfile
            lines = graph_to_molfile(pre(name, True)).split("\n")
            lines[1] = "<timestamp masked>"
            return "\n".join(lines)

        out.append((f"canon-pre|{name}", op_canon_pre))
        out.append((f"serialize-pre|{name}", op_ser_pre))
        out.append((f"write-pre|{name}", op_write_pre))
    for s in TUCAN_STRINGS:
        out.append((f"parse|{s}", (lambda s=s: op_parse(s))))
        out.append((f"norm|{s}", (lambda s=s: op_norm(s))))
    return out


def scribble(obj):
    """The caller owns what it got back: overwrite it. A later call must not see any of this."""
    try:
        for _, d in obj.nodes(data=True):
            d["element_symbol"] = "Xx"
            d["scribble"] = True
        obj.add_edge(10 ** 6, 10 ** 6 + 1, bond_type=99)
        obj.graph["scribble"] = True
    except Exception:
        pass


def run_item(fn):
    try:
        obj = fn()
        if isinstance(obj, str):
            return "OK:" + obj
        r = "OK:" + graph_repr(obj)
        scribble(obj)
        return r
    except BaseException as ex:  # noqa
        import re as _re
        return f"EXC:{type(ex).__module__}.{type(ex).__name__}:" + _re.sub(r"0x[0-9a-fA-F]+", "0x?", str(ex))


def main():
    from .common import setup_paths

    setup_paths()
    res = {}
    for iid, fn in items():
        r = run_item(fn)
        res[iid] = hashlib.sha256(r.encode()).hexdigest()[:16] + ("|EXC:" + r.split(":")[1] if r.startswith("EXC") else "")
    only = os.environ.get("C14_ONLY")
    if only:
        res = {k: v for k, v in res.items() if k == only}
    json.dump(res, sys.stdout)


if __name__ == "__main__":
    main()
