"""E2 drivers: C06, C07, C08 (spelling explorer over my own renderers) — deviation-bounded enumeration."""
from __future__ import annotations

from itertools import combinations, product

from . import molfile as MF
from .common import Report, pmap
from .molfile import Atom, Mol


def read(text):
    from tucan.io import graph_from_molfile_text

    return graph_from_molfile_text(text)


def tucan_of_text(text):
    from tucan.canonicalization import canonicalize_molecule
    from tucan.serialization import serialize_molecule

    return serialize_molecule(canonicalize_molecule(read(text)))


def body_of_written(g):
    from tucan.io import graph_to_molfile

    return "\n".join(graph_to_molfile(g).splitlines()[4:])


# ----------------------------------------------------------------------------------------------
# molecule families
# ----------------------------------------------------------------------------------------------
def c07_molecules(tier):
    out = []
    xyzs = [(0.0, 0.0, 0.0), (1.25, -2.5, 10.0)]
    for el, masses in (("C", (0, 13, 250)), ("Cl", (0, 37)), ("H", (0, 2, 3)), ("Fe", (0, 56))):
        for chg in (0, -1, 2, 15):
            for rad in (0, 2):
                for mass in masses:
                    for xyz in xyzs:
                        if tier == "quick" and xyz != xyzs[0] and (chg, rad) not in ((0, 0), (-1, 2)):
                            continue
                        out.append(Mol([Atom(el, chg, rad, mass, xyz)]))
    # 2-atom and 3-atom molecules, every bond subset, types 1,2,4,8
    a2 = [Atom("C", 0, 0, 0, (0.0, 0.0, 0.0)), Atom("O", -1, 0, 18, (1.0, 0.0, 0.0))]
    for t in (None, 1, 2, 4, 8):
        out.append(Mol([a.__class__(**a.__dict__) for a in a2], [] if t is None else [(0, 1, t)]))
    a3 = [Atom("N", 1, 0, 0, (0.0, 0.0, 0.0)), Atom("H", 0, 0, 2, (1.0, 0.0, 0.0)), Atom("C", 0, 2, 13, (0.0, 1.0, 0.0))]
    pairs = [(0, 1), (0, 2), (1, 2)]
    for k in range(4):
        for sub in combinations(pairs, k):
            for types in product((1, 2), repeat=k) if tier == "quick" else product((1, 2, 4, 8), repeat=k):
                out.append(Mol([a.__class__(**a.__dict__) for a in a3], [(a, b, t) for (a, b), t in zip(sub, types)]))
    # star-encoding molecules: a centre with 2..5 neighbours (+ a ring bond among neighbours), mixed types
    for k in (2, 3, 4) if tier == "quick" else (2, 3, 4, 5):
        atoms = [Atom("Fe", 2, 0, 0, (0.0, 0.0, 0.0))] + [Atom("C", 0, 0, 13 if i == 1 else 0, (float(i), 1.0, 0.0)) for i in range(k)]
        bonds = [(0, i + 1, 1) for i in range(k)]
        out.append(Mol([a.__class__(**a.__dict__) for a in atoms], list(bonds)))
        bonds2 = [(i + 1, 0, 1 if i % 2 else 2) for i in range(k)] + [(1, 2, 4)]
        out.append(Mol([a.__class__(**a.__dict__) for a in atoms], bonds2))
    return out


# ----------------------------------------------------------------------------------------------
# C07
# ----------------------------------------------------------------------------------------------
def _c07_eval(M, sp, label, res, base):
    text = MF.v3000_text(M, sp)
    res["exec"] += 1
    try:
        g = read(text)
    except Exception as ex:
        return (f"C07|{_kind(label)}|exc", f"{label}: reader raised {type(ex).__name__}: {str(ex)[:120]}", text)
    msg = MF.compare_graph(g, M)
    if msg:
        return (f"C07|{_kind(label)}", f"{label}: {msg}", text)
    if "explicit0" in label:
        # explicit defaults mean the same as omitting them: same string, same written body as the very same
        # spelling without the explicit zeros
        from tucan.canonicalization import canonicalize_molecule
        from tucan.serialization import serialize_molecule

        sp_omit = MF.with_(sp, explicit_zero=None)
        sp_omit["explicit_zero"] = []
        sp_omit["splits"] = []  # positions refer to the line with the explicit zeros
        sp_omit["blanks"] = []
        g_omit = read(MF.v3000_text(M, sp_omit))
        s = serialize_molecule(canonicalize_molecule(g))
        s_omit = serialize_molecule(canonicalize_molecule(g_omit))
        if s != s_omit:
            return ("C07|explicit0|tucan", f"{label}: TUCAN {s!r} != {s_omit!r} of the omitting spelling", text)
        if body_of_written(read(text)) != body_of_written(read(MF.v3000_text(M, sp_omit))):
            return ("C07|explicit0|written", f"{label}: written molfile differs from the omitting spelling", text)
    return None


def _kind(label):
    parts = []
    for l in label.split(" + "):
        k = l.split("[")[0].split("=")[0].split(":")[0].split("@")[0]
        if l.startswith("atomkw") or l.startswith("bondkw"):
            k += ":" + l.split(":")[-1].split("=")[0]
        parts.append(k)
    return "+".join(sorted(parts))


def c07_shard(job):
    tier, mi, M, depth = job
    res = {"exec": 0, "vios": [], "states": 0, "transitions": 0, "nontrivial": 0, "by_kind": {}}
    sp0 = MF.default_spelling()
    base_text = MF.v3000_text(M, sp0)
    base = {}
    try:
        g0 = read(base_text)
        from tucan.canonicalization import canonicalize_molecule
        from tucan.serialization import serialize_molecule

        base["tucan"] = serialize_molecule(canonicalize_molecule(g0))
        base["body"] = body_of_written(read(base_text))
    except Exception as ex:
        res["vios"].append(("C07|default|exc", {"kind": "molfile-vs-mol", "n": len(M.atoms), "molfile": base_text,
                                               "mol": _mol_json(M), "summary": f"default spelling: {ex!r}"}))
        return res

    failing = set()

    def run(label, sp):
        if " + " in label and any(l in failing for l in label.split(" + ")):
            return  # not minimal: a single deviation of this pair already fails on its own
        res["states"] += 1
        res["transitions"] += 1
        k = _kind(label)
        res["by_kind"][k] = res["by_kind"].get(k, 0) + 1
        r = _c07_eval(M, sp, label, res, base)
        if label != "default":
            res["nontrivial"] += 1
        if r:
            key, msg, text = r
            failing.add(label)
            res["vios"].append((key, {"kind": "molfile-vs-mol", "n": len(M.atoms), "molfile": text,
                                      "mol": _mol_json(M), "label": label, "summary": msg}))

    run("default", sp0)
    sdevs = list(MF.v3_structure_deviations(M, tier))
    for label, kw in sdevs:
        sp = MF.with_(sp0, **kw)
        run(label, sp)
    tdevs0 = list(MF.v3_text_deviations(M, sp0, tier))
    for label, kw in tdevs0:
        run(label, MF.with_(sp0, **kw))
    if depth >= 2:
        # pairs: structure x structure, structure x text, text x text
        for (l1, k1), (l2, k2) in combinations(sdevs, 2):
            if MF.conflict(k1, k2):
                continue
            try:
                sp = MF.with_(MF.with_(sp0, **k1), **k2)
                MF.v3000_token_lines(M, sp)
            except AssertionError:
                continue
            run(f"{l1} + {l2}", sp)
        for l1, k1 in sdevs:
            sp1 = MF.with_(sp0, **k1)
            for l2, k2 in MF.v3_text_deviations(M, sp1, tier):
                run(f"{l1} + {l2}", MF.with_(sp1, **k2))
        for (l1, k1), (l2, k2) in combinations(tdevs0, 2):
            if "split" in l1 and "blank" in l2 or "blank" in l1 and "split" in l2:
                continue  # positions shift; covered by structure-x-text style loop below
            if "splits" in k1 and "splits" in k2 and k1["splits"][0] == k2["splits"][0]:
                continue
            if "blanks" in k1 and "blanks" in k2 and k1["blanks"][0][:2] == k2["blanks"][0][:2]:
                continue
            run(f"{l1} + {l2}", MF.with_(MF.with_(sp0, **k1), **k2))
        for l1, k1 in tdevs0:
            if "blanks" not in k1:
                continue
            sp1 = MF.with_(sp0, **k1)
            for l2, k2 in MF.v3_text_deviations(M, sp1, tier):
                if "splits" in k2:
                    run(f"{l1} + {l2}", MF.with_(sp1, **k2))
    return res


def _mol_json(M):
    return {"atoms": [[a.el, a.chg, a.rad, a.mass, list(a.xyz)] for a in M.atoms], "bonds": [list(b) for b in M.bonds]}


def mol_from_json(d):
    return Mol([Atom(a[0], a[1], a[2], a[3], tuple(a[4])) for a in d["atoms"]], [tuple(b) for b in d["bonds"]])


def run_c07(tier):
    rep = Report("C07", tier)
    mols = c07_molecules(tier)
    jobs = []
    for mi, M in enumerate(mols):
        n = len(M.atoms)
        if tier == "quick":
            depth = 2 if (mi % 16 == 5 and n == 1) or (n == 3 and len(M.bonds) == 2 and mi % 4 == 0) else 1
        else:
            depth = 2 if (n == 1 and mi % 4 == 1) or (n in (2, 3) and mi % 3 == 0) or (n == 3 and len(M.bonds) >= 2 and mi % 7 == 0) else 1
        jobs.append((tier, mi, M, depth))
    jobs.sort(key=lambda j: -j[3])
    by_kind = {}
    pairs_mols = 0
    for job, res in pmap(c07_shard, jobs):
        rep.add(states=res["states"], transitions=res["transitions"], traces_validated_against_impl=res["exec"],
                distinct_nontrivial=res["nontrivial"])
        pairs_mols += job[3] >= 2
        for k, v in res["by_kind"].items():
            by_kind[k] = by_kind.get(k, 0) + v
        for key, case in res["vios"]:
            rep.violation(key, case)
    single = {k: v for k, v in by_kind.items() if "+" not in k}
    rep.add(molecules=len(mols), molecules_with_all_deviation_pairs=pairs_mols, single_deviation_kinds=single,
            pair_kind_count=len(by_kind) - len(single),
            rule="states = (abstract molecule, spelling) with <=1 deviation from the default spelling (<=2 on the "
                 "listed subset of molecules): every continuation split position, every blank-run position, property "
                 "orders, explicit defaults, index maps, extra keywords at every slot, star-atom foldings, blocks, "
                 "headers, line endings; non-trivial = non-default spellings")
    M = mols[5]
    rep.sample({"mol": _mol_json(M), "default_text": MF.v3000_text(M)})
    lab, kw = next(iter(MF.v3_text_deviations(M, MF.default_spelling(), tier)))
    rep.sample({"deviation": lab, "text": MF.v3000_text(M, MF.with_(MF.default_spelling(), **kw))})
    rep.assumptions.append("my V3000 renderer follows the BIOVIA CTfile 2020 specification; stored attributes are "
                           "compared semantically (absent == 0)")
    return rep.finish()


def replay_molfile_vs_mol(prop, rec):
    M = mol_from_json(rec["mol"])
    try:
        g = read(rec["molfile"])
    except Exception as ex:
        return True, f"reader raised {type(ex).__name__}: {ex}"
    msg = MF.compare_graph(g, M, check_coords=rec.get("check_coords", True))
    if msg is None and rec.get("expect_tucan"):
        s = tucan_of_text(rec["molfile"])
        if s != rec["expect_tucan"]:
            msg = f"TUCAN {s!r} != {rec['expect_tucan']!r}"
    return bool(msg), msg or "reader output equals the stated molecule"
