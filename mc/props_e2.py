"""E2 drivers: C06, C07, C08 (spelling explorer over my own renderers) — deviation-bounded enumeration."""
from __future__ import annotations

from itertools import combinations, product

from . import molfile as MF
from .common import Report, pmap
from .molfile import Atom, Mol


def read(text):
    from tucan.io import graph_from_molfile_text

    return graph_from_molfile_text(text)


def tucan_of_text(text):
    from tucan.canonicalization import canonicalize_molecule
    from tucan.serialization import serialize_molecule

    return serialize_molecule(canonicalize_molecule(read(text)))


def body_of_written(g):
    from tucan.io import graph_to_molfile

    return "\n".join(graph_to_molfile(g).splitlines()[4:])


# ----------------------------------------------------------------------------------------------
# molecule families
# ----------------------------------------------------------------------------------------------
def c07_molecules(tier):
    out = []
    xyzs = [(0.0, 0.0, 0.0), (1.25, -2.5, 10.0), (0.0000004, 1.23456789, -7.000000125)]
    for el, masses in (("C", (0, 13, 250)), ("Cl", (0, 37)), ("H", (0, 2, 3)), ("Fe", (0, 56))):
        for chg in (0, -1, 2, 15):
            for rad in (0, 2):
                for mass in masses:
                    for xyz in xyzs:
                        if tier == "quick" and xyz != xyzs[0] and (chg, rad) not in ((0, 0), (-1, 2)):
                            continue
                        if tier == "quick" and xyz == xyzs[2] and el != "C":
                            continue
                        out.append(Mol([Atom(el, chg, rad, mass, xyz)]))
    # 2-atom and 3-atom molecules, every bond subset, types 1,2,4,8
    a2 = [Atom("C", 0, 0, 0, (0.0, 0.0, 0.0)), Atom("O", -1, 0, 18, (1.0, 0.0, 0.0))]
    for t in (None, 1, 2, 3, 4, 5, 6, 7, 8, 9, 10):
        out.append(Mol([a.__class__(**a.__dict__) for a in a2], [] if t is None else [(0, 1, t)]))
    a3 = [Atom("N", 1, 0, 0, (0.0, 0.0, 0.0)), Atom("H", 0, 0, 2, (1.0, 0.0, 0.0)), Atom("C", 0, 2, 13, (0.0, 1.0, 0.0))]
    pairs = [(0, 1), (0, 2), (1, 2)]
    for k in range(4):
        for sub in combinations(pairs, k):
            for types in product((1, 2), repeat=k) if tier == "quick" else product((1, 2, 4, 8), repeat=k):
                out.append(Mol([a.__class__(**a.__dict__) for a in a3], [(a, b, t) for (a, b), t in zip(sub, types)]))
    # star-encoding molecules: a centre with 2..5 neighbours (+ a ring bond among neighbours), mixed types
    for k in (2, 3, 4) if tier == "quick" else (2, 3, 4, 5):
        atoms = [Atom("Fe", 2, 0, 0, (0.0, 0.0, 0.0))] + [Atom("C", 0, 0, 13 if i == 1 else 0, (float(i), 1.0, 0.0)) for i in range(k)]
        bonds = [(0, i + 1, 1) for i in range(k)]
        out.append(Mol([a.__class__(**a.__dict__) for a in atoms], list(bonds)))
        bonds2 = [(i + 1, 0, 1 if i % 2 else 2) for i in range(k)] + [(1, 2, 4)]
        out.append(Mol([a.__class__(**a.__dict__) for a in atoms], bonds2))
    # a centre with 12 equal bonds: ENDPTS lists with 9, 10, 11, 12 endpoints (two-digit counts)
    atoms = [Atom("Zr", 4, 0, 0, (0.0, 0.0, 0.0))] + [Atom("C", 0, 0, 0, (float(i), 2.0, 0.0)) for i in range(12)]
    out.append(Mol(atoms, [(0, i + 1, 1) for i in range(12)]))
    return out


# ----------------------------------------------------------------------------------------------
# C07
# ----------------------------------------------------------------------------------------------
def _c07_eval(M, sp, label, res, base):
    text = MF.v3000_text(M, sp)
    res["exec"] += 1
    try:
        g = read(text)
    except Exception as ex:
        return (f"C07|{_kind(label)}|exc", f"{label}: reader raised {type(ex).__name__}: {str(ex)[:120]}", text)
    msg = MF.compare_graph(g, M)
    if msg:
        return (f"C07|{_kind(label)}", f"{label}: {msg}", text)
    if "explicit0" in label:
        # explicit defaults mean the same as omitting them: same string, same written body as the very same
        # spelling without the explicit zeros
        from tucan.canonicalization import canonicalize_molecule
        from tucan.serialization import serialize_molecule

        try:
            sp_omit = MF.with_(sp, explicit_zero=None)
            sp_omit["explicit_zero"] = []
            sp_omit["splits"] = []  # positions refer to the line with the explicit zeros
            sp_omit["blanks"] = []
            g_omit = read(MF.v3000_text(M, sp_omit))
            s = serialize_molecule(canonicalize_molecule(g))
            s_omit = serialize_molecule(canonicalize_molecule(g_omit))
            if s != s_omit:
                return ("C07|explicit0|tucan", f"{label}: TUCAN {s!r} != {s_omit!r} of the omitting spelling", text)
            if body_of_written(read(text)) != body_of_written(read(MF.v3000_text(M, sp_omit))):
                return ("C07|explicit0|written", f"{label}: written molfile differs from the omitting spelling", text)
        except Exception as ex:
            return ("C07|explicit0|exc", f"{label}: comparing with the omitting spelling raised {type(ex).__name__}: {str(ex)[:100]}", text)
    return None


def _kind(label):
    parts = []
    for l in label.split(" + "):
        k = l.split("[")[0].split("=")[0].split(":")[0].split("@")[0]
        if l.startswith("atomkw") or l.startswith("bondkw"):
            k += ":" + l.split(":")[-1].split("=")[0]
        parts.append(k)
    return "+".join(sorted(parts))


def c07_shard(job):
    tier, mi, M, depth = job
    res = {"exec": 0, "vios": [], "states": 0, "transitions": 0, "nontrivial": 0, "by_kind": {}}
    sp0 = MF.default_spelling()
    base_text = MF.v3000_text(M, sp0)
    base = {}
    try:
        g0 = read(base_text)
        from tucan.canonicalization import canonicalize_molecule
        from tucan.serialization import serialize_molecule

        base["tucan"] = serialize_molecule(canonicalize_molecule(g0))
        base["body"] = body_of_written(read(base_text))
    except Exception as ex:
        res["vios"].append(("C07|default|exc", {"kind": "molfile-vs-mol", "n": len(M.atoms), "molfile": base_text,
                                               "mol": _mol_json(M), "summary": f"default spelling: {ex!r}"}))
        return res

    failing = set()

    def run(label, sp):
        if " + " in label and any(l in failing for l in label.split(" + ")):
            return  # not minimal: a single deviation of this pair already fails on its own
        res["states"] += 1
        res["transitions"] += 1
        k = _kind(label)
        res["by_kind"][k] = res["by_kind"].get(k, 0) + 1
        r = _c07_eval(M, sp, label, res, base)
        if label != "default":
            res["nontrivial"] += 1
        if r:
            key, msg, text = r
            failing.add(label)
            res["vios"].append((key, {"kind": "molfile-vs-mol", "n": len(M.atoms), "molfile": text,
                                      "mol": _mol_json(M), "label": label, "summary": msg}))

    run("default", sp0)
    # the caller owns the returned graph: scribble on it and read the same text again
    try:
        from .c14_workload import scribble

        scribble(read(base_text))
        msg = MF.compare_graph(read(base_text), M)
        res["exec"] += 1
        if msg:
            res["vios"].append(("C07|aliased-result", {"kind": "molfile-vs-mol", "n": len(M.atoms), "molfile": base_text, "mol": _mol_json(M),
                                                      "reread_after_scribble": True,
                                                      "summary": f"second read of the same text after the caller modified the first result: {msg}"}))
    except Exception as ex:
        res["vios"].append(("C07|aliased-result|exc", {"kind": "molfile-vs-mol", "n": len(M.atoms), "molfile": base_text, "mol": _mol_json(M),
                                                      "summary": f"second read raised {ex!r}"}))
    sdevs = list(MF.v3_structure_deviations(M, tier))
    for label, kw in sdevs:
        sp = MF.with_(sp0, **kw)
        run(label, sp)
    tdevs0 = list(MF.v3_text_deviations(M, sp0, tier))
    for label, kw in tdevs0:
        run(label, MF.with_(sp0, **kw))
    if depth >= 2:
        # pairs: structure x structure, structure x text, text x text
        for (l1, k1), (l2, k2) in combinations(sdevs, 2):
            if MF.conflict(k1, k2):
                continue
            try:
                sp = MF.with_(MF.with_(sp0, **k1), **k2)
                MF.v3000_token_lines(M, sp)
            except AssertionError:
                continue
            run(f"{l1} + {l2}", sp)
        for l1, k1 in sdevs:
            sp1 = MF.with_(sp0, **k1)
            for l2, k2 in MF.v3_text_deviations(M, sp1, tier):
                run(f"{l1} + {l2}", MF.with_(sp1, **k2))
        for (l1, k1), (l2, k2) in combinations(tdevs0, 2):
            if "split" in l1 and "blank" in l2 or "blank" in l1 and "split" in l2:
                continue  # positions shift; covered by structure-x-text style loop below
            if "splits" in k1 and "splits" in k2 and k1["splits"][0] == k2["splits"][0]:
                continue
            if "blanks" in k1 and "blanks" in k2 and k1["blanks"][0][:2] == k2["blanks"][0][:2]:
                continue
            run(f"{l1} + {l2}", MF.with_(MF.with_(sp0, **k1), **k2))
        for l1, k1 in tdevs0:
            if "blanks" not in k1:
                continue
            sp1 = MF.with_(sp0, **k1)
            for l2, k2 in MF.v3_text_deviations(M, sp1, tier):
                if "splits" in k2:
                    run(f"{l1} + {l2}", MF.with_(sp1, **k2))
    return res


def _mol_json(M):
    return {"atoms": [[a.el, a.chg, a.rad, a.mass, list(a.xyz)] for a in M.atoms], "bonds": [list(b) for b in M.bonds]}


def mol_from_json(d):
    return Mol([Atom(a[0], a[1], a[2], a[3], tuple(a[4])) for a in d["atoms"]], [tuple(b) for b in d["bonds"]])


def run_c07(tier):
    rep = Report("C07", tier)
    mols = c07_molecules(tier)
    jobs = []
    for mi, M in enumerate(mols):
        n = len(M.atoms)
        if tier == "quick":
            depth = 2 if (mi % 16 == 5 and n == 1) or (n == 3 and len(M.bonds) == 2 and mi % 4 == 0) else 1
        else:
            depth = 2 if (n == 1 and mi % 4 == 1) or (n in (2, 3) and mi % 3 == 0) or (n == 3 and len(M.bonds) >= 2 and mi % 7 == 0) else 1
        jobs.append((tier, mi, M, depth))
    jobs.sort(key=lambda j: -j[3])
    by_kind = {}
    pairs_mols = 0
    for job, res in pmap(c07_shard, jobs):
        rep.add(states=res["states"], transitions=res["transitions"], traces_validated_against_impl=res["exec"],
                distinct_nontrivial=res["nontrivial"])
        pairs_mols += job[3] >= 2
        for k, v in res["by_kind"].items():
            by_kind[k] = by_kind.get(k, 0) + v
        for key, case in res["vios"]:
            rep.violation(key, case)
    single = {k: v for k, v in by_kind.items() if "+" not in k}
    rep.add(molecules=len(mols), molecules_with_all_deviation_pairs=pairs_mols, single_deviation_kinds=single,
            pair_kind_count=len(by_kind) - len(single),
            rule="states = (abstract molecule, spelling) with <=1 deviation from the default spelling (<=2 on the "
                 "listed subset of molecules): every continuation split position, every blank-run position, property "
                 "orders, explicit defaults, index maps, extra keywords at every slot, star-atom foldings, blocks, "
                 "headers, line endings; non-trivial = non-default spellings")
    M = mols[5]
    rep.sample({"mol": _mol_json(M), "default_text": MF.v3000_text(M)})
    lab, kw = next(iter(MF.v3_text_deviations(M, MF.default_spelling(), tier)))
    rep.sample({"deviation": lab, "text": MF.v3000_text(M, MF.with_(MF.default_spelling(), **kw))})
    rep.assumptions.append("my V3000 renderer follows the BIOVIA CTfile 2020 specification; stored attributes are "
                           "compared semantically (absent == 0)")
    return rep.finish()


def replay_molfile_vs_mol(prop, rec):
    M = mol_from_json(rec["mol"])
    if rec.get("reread_after_scribble"):
        from .c14_workload import scribble

        scribble(read(rec["molfile"]))
    try:
        g = read(rec["molfile"])
    except Exception as ex:
        return True, f"reader raised {type(ex).__name__}: {ex}"
    msg = MF.compare_graph(g, M, check_coords=rec.get("check_coords", True))
    if msg is None and rec.get("expect_tucan"):
        s = tucan_of_text(rec["molfile"])
        if s != rec["expect_tucan"]:
            msg = f"TUCAN {s!r} != {rec['expect_tucan']!r}"
    return bool(msg), msg or "reader output equals the stated molecule"


# ----------------------------------------------------------------------------------------------
# C08 — V2000 vs V3000 vs abstract molecule
# ----------------------------------------------------------------------------------------------
def c08_molecules(tier):
    out = []
    # all attribute combinations on a 1..3-atom skeleton
    chgs = (-3, -2, -1, 0, 1, 2, 3) if tier == "thorough" else (-3, -1, 0, 1, 3)
    for chg in chgs:
        for rad in (0, 1, 2, 3):
            for mass in (0, 13):
                out.append(("attr1", Mol([Atom("C", chg, rad, mass, (0.0, 0.0, 0.0))])))
                out.append(("attr3", Mol([Atom("O", 0, 0, 0, (0.0, 0.0, 0.0)), Atom("C", chg, rad, mass, (1.5, 0.0, 0.0)),
                                          Atom("N", 1, 0, 15, (0.0, -1.5, 0.0))], [(0, 1, 2), (1, 2, 1)])))
    # codes-expressible molecules (charges in +-3 without radical on the same atom, doublet radicals)
    out.append(("codes", Mol([Atom("N", 1), Atom("O", -1), Atom("C", 0, 2), Atom("C")], [(0, 1, 1), (0, 2, 1), (2, 3, 2)])))
    out.append(("codes", Mol([Atom("Fe", 3), Atom("Cl", -1), Atom("Cl", -1), Atom("Cl", -1)], [])))
    out.append(("codes", Mol([Atom("C", 0, 2, 13), Atom("H", 0, 0, 2), Atom("H", 0, 0, 3), Atom("H")], [(0, 1, 1), (0, 2, 1), (0, 3, 1)])))
    # a charged deuteron next to other charged atoms (codes + D/T symbols on the same atom line)
    out.append(("codes", Mol([Atom("N", 1), Atom("H", 1, 0, 2), Atom("Cl", -1), Atom("O", -1), Atom("H", 1, 0, 3)], [(0, 3, 1)])))
    # coordinates that fill the whole 10-character field
    out.append(("codes", Mol([Atom("C", 1, 0, 0, (-1234.5678, 12345.6789, -9999.9999)), Atom("O", -1, 0, 0, (99999.9999, 0.0, -1000.0))], [(0, 1, 2)])))
    # hydrogen isotopes: D-O-H, D-O-T, with other isotopes around (D5)
    out.append(("iso", Mol([Atom("H", 0, 0, 2), Atom("O", 0, 0, 18), Atom("H")], [(0, 1, 1), (1, 2, 1)])))
    out.append(("iso", Mol([Atom("H", 0, 0, 2), Atom("O"), Atom("H", 0, 0, 3)], [(0, 1, 1), (1, 2, 1)])))
    out.append(("iso", Mol([Atom("H", 0, 0, 2), Atom("C", 0, 0, 13), Atom("H", 0, 0, 2), Atom("H", 0, 0, 1)], [(0, 1, 1), (1, 2, 1), (1, 3, 1)])))
    # many entries: 9 and 17 charged/labelled atoms (grouping into lines of <= 8)
    for k in (9, 17) if tier == "thorough" else (9,):
        atoms = [Atom("N", 1 if i % 2 else -1, 2 if i % 3 == 0 else 0, 15 if i % 2 == 0 else 14, (float(i), 0.0, 0.0)) for i in range(k)]
        out.append((f"many{k}", Mol(atoms, [(i, i + 1, 1) for i in range(k - 1)])))
    # width boundaries of the 3-column fields
    for n in (1, 2, 3, 9, 10, 99, 100, 999):
        atoms = [Atom("C", 0, 0, 0, (float(i % 7), float(i % 3), 0.0)) for i in range(n)]
        atoms[0] = Atom("N", 1, 0, 15, (0.0, 0.0, 0.0))
        atoms[-1] = Atom("O" if n > 1 else "N", -1 if n > 1 else 1, 2, 17 if n > 1 else 15, (1.0, 1.0, 1.0))
        bonds = [(i, i + 1, 1 + (i % 3)) for i in range(n - 1)]
        if n >= 3:
            bonds.append((n - 1, 0, 4))
        out.append((f"width{n}", Mol(atoms, bonds)))
        if n in (9, 10, 99, 100):
            atoms2 = [Atom("C", (i % 3) - 1, 2 if i % 4 == 0 else 0, 13 if i % 5 == 0 else 0, (float(i % 7), 0.0, 0.0)) for i in range(n)]
            out.append((f"every{n}", Mol(atoms2, [(i, i + 1, 1) for i in range(n - 1)])))
    return out


def v2_deviations(name, M, tier):
    """Single denotation-preserving deviations from the default V2000 spelling (all via property lines)."""
    n = len(M.atoms)
    any_chg = any(a.chg for a in M.atoms)
    any_rad = any(a.rad for a in M.atoms)
    codes_ok = all(abs(a.chg) <= 3 and a.rad in (0, 2) and not (a.chg and a.rad) for a in M.atoms)
    if codes_ok and (any_chg or any_rad):
        yield ("via=codes", {"chg_via": "codes", "rad_via": "codes"})
    dts = [i for i, a in enumerate(M.atoms) if a.el == "H" and a.mass in (2, 3)]
    for k in range(1, len(dts) + 1):
        for sub in combinations(dts, k):
            yield (f"DT{list(sub)}", {"dt": list(sub)})
    if (any_chg or any_rad) and n <= 20:
        for i in range(n):
            for code in range(1, 8):
                yield (f"stale[{i}]={code}", {"stale_codes": {i: code}})
    nent = {"CHG": sum(1 for a in M.atoms if a.chg), "RAD": sum(1 for a in M.atoms if a.rad),
            "ISO": sum(1 for a in M.atoms if a.mass)}
    for key, k in nent.items():
        if 2 <= k <= (17 if tier == "thorough" else 9):
            for comp in MF.compositions(k):
                dflt = [8] * (k // 8) + ([k % 8] if k % 8 else [])
                if comp != dflt and (k <= 9 or len(comp) <= 3 or comp.count(1) >= len(comp) - 1):
                    yield (f"grouping[{key}]={comp}", {"grouping": {key: comp}})
        if 2 <= k <= 9:
            yield (f"entryorder[{key}]=reversed", {"entry_order": {key: list(range(k - 1, -1, -1))}})
            yield (f"entryorder[{key}]=rot", {"entry_order": {key: list(range(1, k)) + [0]}})
    from itertools import permutations as perms
    for p in perms(("CHG", "RAD", "ISO")):
        if p != ("CHG", "RAD", "ISO"):
            yield (f"lineorder={p}", {"line_order": p})
    nlines = sum((k + 7) // 8 for k in nent.values())
    for extra in MF.UNRELATED_V2_LINES:
        for slot in range(nlines + 1):
            yield (f"extra@{slot}:{extra[0][:6]}", {"extra_lines": [(slot, extra)]})
    if n <= 20:
        for i, a in enumerate(M.atoms):
            for key, v in (("CHG", a.chg), ("RAD", a.rad)):
                if not v:
                    yield (f"zeroentry[{key},{i}]", {"zero_entries": [(key, i)]})
    yield ("atomlists=1", {"atom_lists": 1})
    yield ("atomlists=2", {"atom_lists": 2})
    yield ("truncated-atom-lines", {"truncate_atoms": True})
    yield ("short-bond-lines", {"short_bonds": True})
    yield ("eol=CRLF", {"eol": "\r\n"})
    yield ("no-final-newline", {"final_newline": False})
    yield ("header", {"header": ("name", "  prog", "M  CHG  1   1   5")})
    yield ("header:mentions-V3000", {"header": ("converted from a V3000 file", "  prog", "V3000 V2000 M  V30 BEGIN CTAB")})


def _v2_apply(sp, kw):
    return MF.with_(sp, **kw)


def c08_shard(job):
    tier, name, M, depth, part, nparts = job
    res = {"exec": 0, "vios": [], "states": 0, "transitions": 0, "nontrivial": 0, "by_kind": {}}
    t3 = MF.v3000_text(M)
    try:
        g3 = read(t3)
        s3 = tucan_of_text(t3)
    except Exception as ex:
        res["vios"].append(("C08|v3000-default|exc", {"kind": "molfile-vs-mol", "n": len(M.atoms), "molfile": t3, "mol": _mol_json(M),
                                                     "summary": f"default V3000 rendering: {ex!r}"}))
        return res
    m3 = MF.compare_graph(g3, M)
    if m3:
        res["vios"].append(("C08|v3000-default", {"kind": "molfile-vs-mol", "n": len(M.atoms), "molfile": t3, "mol": _mol_json(M),
                                                 "summary": f"default V3000 rendering: {m3}"}))
    sp0 = MF.default_v2_spelling()
    failing = set()

    def run(label, sp):
        if " + " in label and any(l in failing for l in label.split(" + ")):
            return
        try:
            text = MF.v2000_text(M, sp)
        except AssertionError:
            return
        res["states"] += 1
        res["transitions"] += 1
        res["exec"] += 1
        k = _kind(label)
        res["by_kind"][k] = res["by_kind"].get(k, 0) + 1
        if label != "default":
            res["nontrivial"] += 1
        msg = None
        try:
            g = read(text)
            msg = MF.compare_graph(g, M)
            if not msg and (len(M.atoms) <= 20 or label == "default"):
                s = tucan_of_text(text)
                if s != s3:
                    msg = f"TUCAN {s!r} != {s3!r} of the V3000 rendering"
        except Exception as ex:
            msg = f"reader raised {type(ex).__name__}: {str(ex)[:120]}"
            k += "|exc"
        if msg:
            failing.add(label)
            res["vios"].append((f"C08|{k}", {"kind": "molfile-vs-mol", "n": len(M.atoms), "molfile": text, "mol": _mol_json(M),
                                            "label": label, "expect_tucan": s3, "summary": f"[{name}] {label}: {msg}"}))

    if part == 0:
        run("default", sp0)
        try:
            from .c14_workload import scribble

            t2 = MF.v2000_text(M, sp0)
            scribble(read(t2))
            msg = MF.compare_graph(read(t2), M)
            res["exec"] += 1
            if msg:
                res["vios"].append(("C08|aliased-result", {"kind": "molfile-vs-mol", "n": len(M.atoms), "molfile": t2, "mol": _mol_json(M),
                                                          "reread_after_scribble": True,
                                                          "summary": f"[{name}] second read of the same V2000 text after the caller modified the first result: {msg}"}))
        except Exception as ex:
            res["vios"].append(("C08|aliased-result|exc", {"kind": "molfile-vs-mol", "n": len(M.atoms), "molfile": MF.v2000_text(M, sp0),
                                                          "mol": _mol_json(M), "summary": f"second read raised {ex!r}"}))
    devs = list(v2_deviations(name, M, tier))
    for di, (label, kw) in enumerate(devs):
        if di % nparts == part:
            run(label, _v2_apply(sp0, kw))
    if depth >= 2:
        for pi, ((l1, k1), (l2, k2)) in enumerate(combinations(devs, 2)):
            if pi % nparts != part:
                continue
            if set(k1) & set(k2) - {"extra_lines", "zero_entries", "stale_codes"}:
                continue
            if "stale_codes" in k1 and "stale_codes" in k2 and set(k1["stale_codes"]) & set(k2["stale_codes"]):
                continue
            if ("grouping" in k1 or "grouping" in k2 or "entry_order" in k1 or "entry_order" in k2) and \
                    ("zero_entries" in k1 or "zero_entries" in k2 or "dt" in k1 or "dt" in k2 or "chg_via" in k1 or "chg_via" in k2):
                continue  # entry counts change
            if ("chg_via" in k1 and ("stale_codes" in k2 or "zero_entries" in k2)) or \
                    ("chg_via" in k2 and ("stale_codes" in k1 or "zero_entries" in k1)):
                continue  # with information in the codes there must be no CHG/RAD line at all
            run(f"{l1} + {l2}", _v2_apply(_v2_apply(sp0, k1), k2))
    return res


def run_c08(tier):
    rep = Report("C08", tier)
    mols = c08_molecules(tier)
    jobs = []
    for mi, (name, M) in enumerate(mols):
        n = len(M.atoms)
        depth = 2 if (name in ("codes", "iso") or (name == "attr3" and (mi % (3 if tier == "thorough" else 11) == 0))) else 1
        nparts = 16 if (n >= 99 or depth >= 2) else 1
        for part in range(nparts):
            jobs.append((tier, name, M, depth, part, nparts))
    jobs.sort(key=lambda j: -(j[3] * 1000 + len(j[2].atoms)))
    by_kind = {}
    for job, res in pmap(c08_shard, jobs):
        rep.add(states=res["states"], transitions=res["transitions"], traces_validated_against_impl=res["exec"],
                distinct_nontrivial=res["nontrivial"])
        for k, v in res["by_kind"].items():
            by_kind[k] = by_kind.get(k, 0) + v
        for key, case in res["vios"]:
            rep.violation(key, case)
    single = {k: v for k, v in by_kind.items() if "+" not in k}
    rep.add(molecules=len(mols), single_deviation_kinds=single, pair_kind_count=len(by_kind) - len(single),
            atom_counts=sorted({len(M.atoms) for _, M in mols}),
            rule="states = (abstract molecule, V2000 spelling) with <=1 deviation from the all-property-lines default "
                 "(<=2 for the codes/isotope molecules and a subset of the 3-atom family): codes vs lines, stale codes, "
                 "every composition of the entry list into lines of <=8, entry/line order, unrelated lines at every "
                 "slot, atom lists, truncated lines, D/T symbols, CRLF; oracle = abstract molecule and the V3000 "
                 "rendering's TUCAN; non-trivial = non-default spellings")
    name, M = mols[3]
    rep.sample({"mol": _mol_json(M), "default_v2000": MF.v2000_text(M)})
    rep.assumptions.append("my V2000/V3000 renderers follow the CTfile specification (fixed columns, supersession rule)")
    return rep.finish()


# ----------------------------------------------------------------------------------------------
# C06 — only elements, isotopes, radicals and connectivity matter (pure differential oracle)
# ----------------------------------------------------------------------------------------------
def c06_molecules(tier):
    out = []
    cols = [("C", 0, 0), ("N", 0, 0), ("H", 0, 0), ("H", 2, 0)] + ([("O", 0, 2)] if tier == "thorough" else [])
    for n in (1, 2, 3):
        prs = list(combinations(range(n), 2))
        for cs in product(cols, repeat=n):
            for mask in range(1 << len(prs)):
                atoms = [Atom(el, 0, rad, mass, (float(i), 0.0, 0.0)) for i, (el, mass, rad) in enumerate(cs)]
                bonds = [(a, b, 1) for k, (a, b) in enumerate(prs) if mask >> k & 1]
                out.append(Mol(atoms, bonds))
    def mk(atoms, bonds):
        return Mol([Atom(*a) if isinstance(a, tuple) else Atom(a) for a in atoms], bonds)
    # carboxylate / nitro / formamide-like / charged 4..7 atom seeds
    out.append(mk([("C",), ("O",), ("O", -1), ("H",)], [(0, 1, 2), (0, 2, 1), (0, 3, 1)]))
    out.append(mk([("N", 1), ("O",), ("O", -1), ("C",)], [(0, 1, 2), (0, 2, 1), (0, 3, 1)]))
    out.append(mk([("C",), ("O",), ("N",), ("H",), ("H", 0, 0, 2)], [(0, 1, 2), (0, 2, 1), (2, 3, 1), (2, 4, 1)]))
    out.append(mk(["C"] * 6, [(i, (i + 1) % 6, 1 + i % 2) for i in range(6)]))
    out.append(mk(["C"] * 6 + [("C", 0, 2, 13)], [(i, (i + 1) % 6, 4) for i in range(6)] + [(0, 6, 1)]))
    out.append(mk([("C",), ("C",), ("C",), ("O", -1), ("Na", 1)], [(0, 1, 2), (1, 2, 1), (2, 3, 1)]))
    out.append(mk([("C", 0, 2), ("C", 0, 2), ("H", 0, 0, 3), ("Cl",)], [(0, 1, 1), (0, 2, 1), (1, 3, 1)]))
    return out


_REC2_V2 = ("second\n  verif\n\n  1  0  0  0  0  0  0  0  0  0999 V2000\n    0.0000    0.0000    0.0000 C   0  0  0  0  0  0  0  0  0  0  0  0\n"
            "M  CHG  1   1  -1\nM  RAD  1   1   2\nM  ISO  1   1  13\nM  END\n")
_REC2_V3 = ("second\n  verif\n\n  0  0  0     0  0            999 V3000\nM  V30 BEGIN CTAB\nM  V30 COUNTS 1 0 0 0 0\nM  V30 BEGIN ATOM\n"
            "M  V30 1 C 0 0 0 0 MASS=13 RAD=2 CHG=-1\nM  V30 END ATOM\nM  V30 END CTAB\nM  END\n")
_SD_TRAILERS = (
    ("data-item", "> <NOTE>\nplain text\n\n$$$$\n"),
    ("data-item-looking-like-properties", "> <NOTE>\nM  ISO  1   1  13\nM  RAD  1   1   2\nM  CHG  1   1  -1\n\n$$$$\n"),
    ("second-record-v2000", "$$$$\n" + _REC2_V2 + "$$$$\n"),
    ("data-item+second-record-v2000", "> <ID>\n1\n\n$$$$\n" + _REC2_V2 + "> <ID>\n2\n\n$$$$\n"),
    ("second-record-v3000", "$$$$\n" + _REC2_V3 + "$$$$\n"),
)


def c06_shard(job):
    tier, mi, M, depth, part, nparts = job
    res = {"exec": 0, "vios": [], "states": 0, "transitions": 0, "nontrivial": 0, "by_kind": {}}
    sp0 = MF.default_spelling()
    t0 = MF.v3000_text(M, sp0)
    try:
        base = tucan_of_text(t0)
    except Exception as ex:
        res["vios"].append(("C06|default|exc", {"kind": "molfile-pair", "n": len(M.atoms), "molfile_a": t0, "molfile_b": t0,
                                               "summary": f"default rendering raised {ex!r}"}))
        return res
    failing = set()

    def run(label, text, may_reject=False):
        if " + " in label and any(l in failing for l in label.split(" + ")):
            return
        res["states"] += 1
        res["transitions"] += 1
        res["exec"] += 1
        k = _kind(label)
        res["by_kind"][k] = res["by_kind"].get(k, 0) + 1
        if M.bonds and text != t0:
            res["nontrivial"] += 1
        try:
            s = tucan_of_text(text)
            msg = None if s == base else f"TUCAN {s!r} != {base!r} of the default rendering"
        except Exception as ex:
            msg = None if may_reject else f"raised {type(ex).__name__}: {str(ex)[:100]}"
            if may_reject:
                res["by_kind"]["rejected:" + k] = res["by_kind"].get("rejected:" + k, 0) + 1
        if msg:
            failing.add(label)
            res["vios"].append((f"C06|{k}", {"kind": "molfile-pair", "n": len(M.atoms), "molfile_a": t0, "molfile_b": text,
                                            "label": label, "summary": f"{label}: {msg}"}))

    ddevs = list(MF.data_deviations(M, tier))
    sdevs = [d for d in MF.v3_structure_deviations(M, tier)]
    if part == 0:
        run("v2000-default", MF.v2000_text(M))
        # trailing data after M  END (SD data items, further records): a reader may refuse such a text, but when it
        # returns a molecule, what follows the connection table must not leak into it
        for ver, body in (("v2", MF.v2000_text(M)), ("v3", t0)):
            for tl, tail in _SD_TRAILERS:
                run(f"{ver}:sd-trailing[{tl}]", body.rstrip("\r\n") + "\n" + tail, may_reject=True)
        for label, M2 in ddevs:
            run("v3:" + label, MF.v3000_text(M2, sp0))
            if all(abs(c) < 9999.9 for a in M2.atoms for c in a.xyz):
                run("v2:" + label, MF.v2000_text(M2))
        for label, kw in sdevs:
            run("v3:" + label, MF.v3000_text(M, MF.with_(sp0, **kw)))
        if len(M.atoms) >= 4 or mi % 25 == 0:
            # spelling at the text level (owned by C07, repeated here on a subset with the string oracle): every
            # continuation split / blank run, on the default spelling and on one with unrelated keywords on every atom
            sp_kw = MF.with_(sp0, extra_atom_kw=[(i, 0, "CFG=1") for i in range(len(M.atoms))] +
                                                 [(i, 9, "HCOUNT=1") for i in range(len(M.atoms))])
            for spx, tag in ((sp0, ""), (sp_kw, "kw+")):
                for label, kw in MF.v3_text_deviations(M, spx, tier):
                    run("v3:" + tag + label, MF.v3000_text(M, MF.with_(spx, **kw)))
        v2devs = list(v2_deviations("c06", M, tier))
        for label, kw in v2devs:
            try:
                run("v2:" + label, MF.v2000_text(M, MF.with_(MF.default_v2_spelling(), **kw)))
            except AssertionError:
                pass
    if depth >= 2:
        k = 0
        for (l1, m1), (l2, m2) in combinations(ddevs, 2):
            f1, f2 = l1.split("=")[0], l2.split("=")[0]
            if f1 == f2:
                continue
            k += 1
            if k % nparts != part:
                continue
            M3 = _merge(M, m1, m2)
            run(f"v3:{l1} + v3:{l2}", MF.v3000_text(M3, sp0))
        for l1, m1 in ddevs:
            for l2, kw in sdevs:
                k += 1
                if k % nparts != part:
                    continue
                try:
                    run(f"v3:{l1} + v3:{l2}", MF.v3000_text(m1, MF.with_(sp0, **kw)))
                except AssertionError:
                    pass
    return res


def _merge(M, m1, m2):
    """Apply the (single-field) differences of m1 and m2 w.r.t. M to a copy of M."""
    M3 = M.copy()
    for src in (m1, m2):
        for i, (a, b) in enumerate(zip(M.atoms, src.atoms)):
            if a.xyz != b.xyz:
                M3.atoms[i].xyz = b.xyz
            if a.chg != b.chg:
                M3.atoms[i].chg = b.chg
        for j, (x, y) in enumerate(zip(M.bonds, src.bonds)):
            if x != y:
                M3.bonds[j] = y
    return M3


def c06_redrawings(tier):
    """Resonance/tautomer-style redrawings: all bond-type vectors in {1,2,4}^m x all charge vectors in
    {-1,0,+1}^n with total charge 0, on a few skeletons (m, n <= 5)."""
    skels = [
        (["C", "O", "O"], [(0, 1), (0, 2)]),
        (["N", "O", "O", "C"], [(0, 1), (0, 2), (0, 3)]),
        (["C", "C", "C", "O"], [(0, 1), (1, 2), (2, 3)]),
        (["C", "N", "C", "N", "C"], [(0, 1), (1, 2), (2, 3), (3, 4), (4, 0)]),
    ]
    if tier == "quick":
        skels = skels[:3]
    for els, bonds in skels:
        n, m = len(els), len(bonds)
        items = []
        for types in product((1, 2, 4), repeat=m):
            for chgs in product((-1, 0, 1), repeat=n):
                if sum(chgs) != 0:
                    continue
                items.append(Mol([Atom(e, c, 0, 0, (float(i), 0.0, 0.0)) for i, (e, c) in enumerate(zip(els, chgs))],
                                 [(a, b, t) for (a, b), t in zip(bonds, types)]))
        yield items


def c06_redraw_shard(items):
    res = {"exec": 0, "vios": [], "states": 0, "strings": set()}
    base = None
    t0 = None
    for M in items:
        for fmt, text in (("v3", MF.v3000_text(M)), ("v2", MF.v2000_text(M))):
            res["states"] += 1
            res["exec"] += 1
            try:
                s = tucan_of_text(text)
            except Exception as ex:
                s = f"<{type(ex).__name__}>"
            if base is None:
                base, t0 = s, text
            res["strings"].add(s)
            if s != base:
                res["vios"].append(("C06|redrawing", {"kind": "molfile-pair", "n": len(M.atoms), "molfile_a": t0, "molfile_b": text,
                                                      "summary": f"redrawing (bond orders/charges only) changes TUCAN: {s!r} vs {base!r}"}))
    res["strings"] = sorted(res["strings"])
    return res


def run_c06(tier):
    rep = Report("C06", tier)
    mols = c06_molecules(tier)
    jobs = []
    for mi, M in enumerate(mols):
        n = len(M.atoms)
        if tier == "quick":
            depth = 2 if (n >= 4 and mi % 2 == 0) or (n == 3 and len(M.bonds) == 2 and mi % 40 == 0) else 1
        else:
            depth = 2 if n >= 4 or (n == 3 and mi % 8 == 0) or n == 2 else 1
        nparts = 12 if depth >= 2 else 1
        for part in range(nparts):
            jobs.append((tier, mi, M, depth, part, nparts))
    jobs.sort(key=lambda j: -(j[3] * 100 + len(j[2].atoms)))
    by_kind = {}
    for job, res in pmap(c06_shard, jobs):
        rep.add(states=res["states"], transitions=res["transitions"], traces_validated_against_impl=res["exec"],
                distinct_nontrivial=res["nontrivial"])
        for k, v in res["by_kind"].items():
            by_kind[k] = by_kind.get(k, 0) + v
        for key, case in res["vios"]:
            rep.violation(key, case)
    redraw = 0
    for items, res in pmap(c06_redraw_shard, list(c06_redrawings(tier))):
        redraw += res["states"]
        rep.add(states=res["states"], transitions=res["states"], traces_validated_against_impl=res["exec"],
                distinct_nontrivial=res["states"])
        for key, case in res["vios"]:
            rep.violation(key, case)
    single = {k: v for k, v in by_kind.items() if "+" not in k}
    rep.add(molecules=len(mols), redrawings=redraw, single_deviation_kinds=len(single), single_deviation_executions=sum(single.values()),
            pair_executions=sum(v for k, v in by_kind.items() if "+" in k),
            rule="states = renderings (V3000 and V2000) of each molecule with <=1 deviation in non-identity data or "
                 "spelling (<=2 on a subset): coordinates, every bond type 1..10, charges, index maps, extra "
                 "keywords/blocks, headers, CRLF; plus all {1,2,4}^m x {-1,0,1}^n (total charge 0) redrawings of 3-4 "
                 "skeletons; oracle = string equality with the default rendering; non-trivial = molecule has a bond "
                 "and the text differs")
    M = mols[-6]
    rep.sample({"default": MF.v3000_text(M)})
    lab, M2 = list(MF.data_deviations(M, tier))[40]
    rep.sample({"deviation": lab, "text": MF.v3000_text(M2)})
    rep.assumptions.append("renderers follow the CTfile specification; differential oracle only")
    return rep.finish()


def replay_pair(prop, rec):
    try:
        a = tucan_of_text(rec["molfile_a"])
        b = tucan_of_text(rec["molfile_b"])
    except Exception as ex:
        return True, f"raised {type(ex).__name__}: {ex}"
    return a != b, f"tucan(A)={a!r}\ntucan(B)={b!r}"
