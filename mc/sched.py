"""Cooperative scheduler over real threading.Threads, driven by sys.monitoring LINE events (PEP 669).

Exactly one managed thread runs at a time. A *point* is a LINE event in one of the registered code objects.
A schedule is (first thread, list of preemptions [(global step, target thread)], list of end-of-thread choices).
Default policy: keep running the current thread; when it ends, continue with the lowest-numbered unfinished one.
"""
from __future__ import annotations

import sys
import threading

TOOL = 3  # a free sys.monitoring tool id
_mon = sys.monitoring
_E = _mon.events


class Divergence(RuntimeError):
    pass


class Scheduler:
    def __init__(self):
        self.active = False
        self.codes = []
        self._registered = False

    # -- instrumentation ------------------------------------------------------------------------
    def instrument(self, code_objects, instruction_codes=()):
        """LINE events on code_objects; INSTRUCTION events (every bytecode is a scheduling point) on instruction_codes."""
        if not self._registered:
            try:
                _mon.use_tool_id(TOOL, "mc-sched")
            except ValueError:
                pass
            _mon.register_callback(TOOL, _E.LINE, self._on_line)
            _mon.register_callback(TOOL, _E.INSTRUCTION, self._on_instruction)
            self._registered = True
        fine = set(instruction_codes)
        for c in code_objects:
            _mon.set_local_events(TOOL, c, _E.INSTRUCTION if c in fine else _E.LINE)
        self.codes = list(code_objects)
        self.mode = "instruction" if fine else "line"

    def _on_instruction(self, code, offset):
        if not self.active:
            return
        idx = getattr(self._tls, "idx", None)
        if idx is None:
            return
        self._point(idx, code, -offset - 1)

    def uninstrument(self):
        for c in self.codes:
            _mon.set_local_events(TOOL, c, 0)
        self.codes = []

    def _on_line(self, code, line):
        if not self.active:
            return
        idx = getattr(self._tls, "idx", None)
        if idx is None:
            return
        self._point(idx, code, line)

    # -- one execution --------------------------------------------------------------------------
    def run(self, bodies, first=0, preemptions=(), record_trace=True, expect_prefix=None, timeout=60.0):
        """bodies: list of callables. Returns dict(results, steps, trace, enabled_at)."""
        n = len(bodies)
        self._tls = threading.local()
        self.sems = [threading.Semaphore(0) for _ in range(n)]
        self.finished = [False] * n
        self.results = [None] * n
        self.step = 0
        self.trace = []           # (thread, code name, line) per step
        self.enabled_at = []      # per step: tuple of other unfinished threads
        self.preempt = dict(preemptions)  # step -> target
        self.current = first
        self.error = None
        self.expect_prefix = expect_prefix
        self.record_trace = record_trace
        self.done = threading.Event()
        self.timeout = timeout

        def runner(i):
            self._tls.idx = i
            if not self.sems[i].acquire(timeout=self.timeout):
                self.error = self.error or f"thread {i} never scheduled"
                return
            try:
                self.results[i] = ("ok", bodies[i]())
            except BaseException as ex:  # noqa
                self.results[i] = ("exc", type(ex).__name__, str(ex)[:300])
            finally:
                self._tls.idx = None
                self.finished[i] = True
                nxt = next((j for j in range(n) if not self.finished[j]), None)
                if nxt is None:
                    self.done.set()
                else:
                    self.current = nxt
                    self.sems[nxt].release()

        threads = [threading.Thread(target=runner, args=(i,), daemon=True) for i in range(n)]
        self.active = True
        try:
            for t in threads:
                t.start()
            self.sems[first].release()
            if not self.done.wait(self.timeout):
                self.error = self.error or "timeout (deadlock or runaway execution)"
            for t in threads:
                t.join(1.0)
        finally:
            self.active = False
        if self.error:
            raise Divergence(self.error)
        return {"results": self.results, "steps": self.step, "trace": self.trace, "enabled_at": self.enabled_at}

    def _point(self, idx, code, line):
        if idx != self.current:
            # a managed thread running without the baton: must never happen
            self.error = self.error or f"thread {idx} ran without the baton at {code.co_name}:{line}"
            return
        s = self.step
        self.step += 1
        if self.record_trace:
            ev = (idx, code.co_name, line)
            if self.expect_prefix is not None and s < len(self.expect_prefix) and self.expect_prefix[s] != ev:
                self.error = self.error or f"replay divergence at step {s}: {ev} vs {self.expect_prefix[s]}"
            self.trace.append(ev)
            self.enabled_at.append(tuple(j for j in range(len(self.finished)) if j != idx and not self.finished[j]))
        tgt = self.preempt.get(s)
        if tgt is not None and tgt != idx and not self.finished[tgt]:
            self.current = tgt
            self.sems[tgt].release()
            if not self.sems[idx].acquire(timeout=self.timeout):
                self.error = self.error or f"thread {idx} starved after preemption at step {s}"


def code_objects_of(module_or_class, names=None):
    """All function code objects defined in a module/class (optionally restricted to names), incl. nested."""
    import types

    out = []
    seen = set()

    def add_code(c):
        if c in seen:
            return
        seen.add(c)
        out.append(c)
        for k in c.co_consts:
            if isinstance(k, types.CodeType):
                add_code(k)

    def visit(obj, depth=0):
        for name, v in list(vars(obj).items()):
            if names is not None and depth == 0 and name not in names:
                continue
            if isinstance(v, (staticmethod, classmethod)):
                v = v.__func__
            if isinstance(v, types.FunctionType):
                if getattr(v, "__module__", None) == getattr(obj, "__module__", getattr(obj, "__name__", None)) or isinstance(obj, type):
                    add_code(v.__code__)
            elif isinstance(v, type) and depth < 2 and v.__module__ == getattr(obj, "__name__", None):
                visit(v, depth + 1)

    visit(module_or_class)
    return out
