"""C15 / E4 — size-ladder explorer: every n in 1..N_small for every family, then large sizes chosen from the
measured frame-depth curve. A violation is only ever an observed exception (or a changed string) on a real input."""
from __future__ import annotations

import sys

from . import graphs as G
from .common import Report, pmap

C = ("C", None, None)
N = ("N", None, None)
O = ("O", None, None)
H = ("H", None, None)


def path(n):
    return [C] * n, [(i, i + 1) for i in range(n - 1)]


def labelled_path(n):
    cols = [C] * n
    cols[0] = ("C", 13, None)
    return cols, [(i, i + 1) for i in range(n - 1)]


def hetero_path(n):
    return [(C, N, O)[i % 3] for i in range(n)], [(i, i + 1) for i in range(n - 1)]


def cycle(n):
    if n < 3:
        return path(n)
    return [C] * n, [(i, (i + 1) % n) for i in range(n)]


def labelled_cycle(n):
    cols, b = cycle(n)
    cols = list(cols)
    cols[0] = ("C", None, 2)
    return cols, b


def ladder(n):
    k = max(1, n // 2)
    cols = [C] * (2 * k)
    b = [(i, i + 1) for i in range(k - 1)] + [(k + i, k + i + 1) for i in range(k - 1)] + [(i, k + i) for i in range(k)]
    return cols, b


def comb(n):
    k = max(1, n // 2)
    cols = [C] * k + [H] * k
    b = [(i, i + 1) for i in range(k - 1)] + [(i, k + i) for i in range(k)]
    return cols, b


def caterpillar(n):
    k = max(1, n // 3)
    cols = [C] * k + [H] * (2 * k)
    b = [(i, i + 1) for i in range(k - 1)] + [(i, k + 2 * i) for i in range(k)] + [(i, k + 2 * i + 1) for i in range(k)]
    return cols, b


def peptide(n):
    """-[N-C-C(=O)]- repeat units (4 heavy atoms per unit) with one H on N."""
    k = max(1, n // 5)
    cols, b = [], []
    for u in range(k):
        base = len(cols)
        cols += [N, C, C, O, H]
        b += [(base, base + 1), (base + 1, base + 2), (base + 2, base + 3), (base, base + 4)]
        if u:
            b.append((base - 3, base))
    return cols, b


def star(n):
    return [C] * n, [(0, i) for i in range(1, n)]


def complete(n):
    n = min(n, 400)
    return [C] * n, [(i, j) for i in range(n) for j in range(i + 1, n)]


def isolated(n):
    return [(C, H, O)[i % 3] for i in range(n)], []


def copies(n):
    k = max(1, n // 2)
    cols, b = [], []
    for u in range(k):
        cols += [C, O]
        b.append((2 * u, 2 * u + 1))
    return cols, b


def elements_chain(n):
    """A chain running through the periodic table (own table): element k+1 at position k, wrapping around."""
    from .ref.periodic import SYMBOLS

    return [(SYMBOLS[i % 118], None, None) for i in range(n)], [(i, i + 1) for i in range(n - 1)]


FAMILIES = {
    "elements_chain": elements_chain,
    "path": path, "labelled_path": labelled_path, "hetero_path": hetero_path, "cycle": cycle,
    "labelled_cycle": labelled_cycle, "ladder": ladder, "comb": comb, "caterpillar": caterpillar,
    "peptide": peptide, "star": star, "complete": complete, "isolated": isolated, "copies": copies,
}


class DepthProbe:
    """Peak Python frame depth via sys.setprofile."""

    def __init__(self):
        self.depth = 0
        self.peak = 0

    def __call__(self, frame, event, arg):
        if event == "call":
            self.depth += 1
            if self.depth > self.peak:
                self.peak = self.depth
        elif event == "return":
            self.depth -= 1

    def __enter__(self):
        sys.setprofile(self)
        return self

    def __exit__(self, *a):
        sys.setprofile(None)


def run_pipeline(cols, bonds, full=True):
    from tucan.canonicalization import canonicalize_molecule
    from tucan.io import graph_from_molfile_text
    from tucan.parser.parser import graph_from_tucan
    from tucan.serialization import serialize_molecule

    n = len(cols)
    text = G.render_v3000(n, cols, bonds)
    g = graph_from_molfile_text(text)
    gc = canonicalize_molecule(g)
    rounds = len({d["partition"] for _, d in gc.nodes(data=True)})
    if n <= 300:
        canonicalize_molecule(gc)  # a canonical graph is a molecule too: canonicalizing it again must return normally
    s = serialize_molecule(gc)
    if serialize_molecule(gc) != s:
        return s, "serializing the same canonical graph a second time gives a different string", rounds
    g2 = graph_from_tucan(s)
    if g2.number_of_nodes() != n or g2.number_of_edges() != len(bonds):
        return s, f"parse changed atom/bond counts: {g2.number_of_nodes()},{g2.number_of_edges()} vs {n},{len(bonds)}", rounds
    if full:
        s2 = serialize_molecule(canonicalize_molecule(g2))
        if s2 != s:
            return s, "second pass through the pipeline gives a different string", rounds
    return s, None, rounds


def ladder_job(job):
    fam, lo, hi = job
    import time

    res = {"n": 0, "exec": 0, "vios": [], "depth": {}, "nontrivial": 0, "time": 0.0}
    f = FAMILIES[fam]
    t0 = time.time()
    seen_sizes = set()
    for n in range(lo, hi + 1):
        cols, bonds = f(n)
        key = (len(cols), len(bonds))
        if key in seen_sizes:
            continue
        seen_sizes.add(key)
        probe = None
        try:
            if n % 50 == 0 or (fam == "complete" and n % 20 == 0):
                with DepthProbe() as probe:
                    s, err, classes = run_pipeline(cols, bonds)
                res["depth"][n] = probe.peak
            else:
                s, err, classes = run_pipeline(cols, bonds)
        except BaseException as ex:  # noqa
            sys.setprofile(None)
            err = f"{type(ex).__name__}: {str(ex)[:100]}"
            res["vios"].append((f"C15|{type(ex).__name__}", {"kind": "c15", "family": fam, "n": n, "atoms": len(cols),
                                                          "summary": f"{fam}({n}) [{len(cols)} atoms]: {err}"}))
            res["n"] += 1
            continue
        res["n"] += 1
        res["exec"] += 1
        if classes >= 10:
            res["nontrivial"] += 1
        if err:
            res["notes"] = res.get("notes", 0) + 1  # a changed string/count is C03's subject, not a C15 verdict
    res["time"] = time.time() - t0
    return res


def big_job(job):
    fam, n = job
    import time

    t0 = time.time()
    cols, bonds = FAMILIES[fam](n)
    res = {"n": 1, "exec": 0, "vios": [], "atoms": len(cols), "time": 0.0, "classes": 0}
    try:
        s, err, classes = run_pipeline(cols, bonds, full=len(cols) <= 1500)
        res["exec"] = 1
        res["classes"] = classes
        if err:
            res["notes"] = 1
    except BaseException as ex:  # noqa
        res["vios"].append((f"C15|{type(ex).__name__}", {"kind": "c15", "family": fam, "n": n, "atoms": len(cols),
                                                      "summary": f"{fam}({n}) [{len(cols)} atoms]: {type(ex).__name__}: {str(ex)[:100]}"}))
    res["time"] = time.time() - t0
    return res


def run(tier):
    rep = Report("C15", tier)
    nsmall = 200 if tier == "quick" else 400
    jobs = []
    for fam in FAMILIES:
        cap = nsmall if fam != "complete" else (60 if tier == "quick" else 120)  # n^2/2 bonds
        for lo in range(1, cap + 1, 25):
            jobs.append((fam, lo, min(cap, lo + 24)))
    jobs.sort(key=lambda j: -j[1])
    depth = {f: {} for f in FAMILIES}
    times = {f: 0.0 for f in FAMILIES}
    for job, res in pmap(ladder_job, jobs):
        rep.add(states=res["n"], transitions=res["n"], traces_validated_against_impl=res["exec"],
                distinct_nontrivial=res["nontrivial"], round_trip_string_mismatches_noted_not_judged=res.get("notes", 0))
        depth[job[0]].update(res["depth"])
        times[job[0]] += res["time"]
        for key, case in res["vios"]:
            rep.violation(key, case)
    # choose large sizes from the depth curve
    limit = sys.getrecursionlimit()
    big = []
    slopes = {}
    fixed = (1000, 2000) if tier == "quick" else (1000, 2000, 3000, 5000)
    for fam in FAMILIES:
        d = depth[fam]
        ks = sorted(d)
        slope = (d[ks[-1]] - d[ks[0]]) / (ks[-1] - ks[0]) if len(ks) >= 2 else 0.0
        slopes[fam] = round(slope, 4)
        sizes = set(fixed)
        if slope > 0.01:
            base = d[ks[0]] - slope * ks[0]
            n_star = int((limit - base) / slope * 1.15) + 10
            if n_star <= 6000:
                sizes.add(n_star)
        if fam == "complete":
            sizes = {100, 200, 300} if tier == "quick" else {150, 200, 300, 400}
        for n in sorted(sizes):
            big.append((fam, n))
    big.sort(key=lambda j: -j[1])
    bigres = []
    for job, res in pmap(big_job, big):
        rep.add(states=1, transitions=1, traces_validated_against_impl=res["exec"], distinct_nontrivial=1 if res["classes"] >= 10 else 0)
        bigres.append({"family": job[0], "n": job[1], "atoms": res["atoms"], "classes": res["classes"], "seconds": round(res["time"], 1)})
        for key, case in res["vios"]:
            rep.violation(key, case)
    rep.add(families=sorted(FAMILIES), ladder_upto=nsmall, frame_depth_slope_per_atom=slopes, recursion_limit=limit,
            large_runs=sorted(bigres, key=lambda r: (r["family"], r["n"])),
            rule="every family at every n in 1..N_small, then at large sizes (fixed list + the size at which the measured "
                 "frame-depth curve would cross the recursion limit); oracle = normal return of read->canonicalize->"
                 "serialize->parse(->canonicalize->serialize) and equal strings; non-trivial = inputs with >=10 partition classes")
    rep.sample({"family": "peptide", "n": 10, "molfile": G.render_v3000(len(peptide(10)[0]), *peptide(10))})
    rep.assumptions.append("default interpreter recursion limit; wall time is reported, not judged")
    return rep.finish()


def replay(prop, rec):
    cols, bonds = FAMILIES[rec["family"]](rec["n"])
    try:
        s, err, _ = run_pipeline(cols, bonds, full=len(cols) <= 1500)
    except BaseException as ex:  # noqa
        return True, f"{rec['family']}({rec['n']}): {type(ex).__name__}: {str(ex)[:200]}"
    return False, f"{rec['family']}({rec['n']}) completes" + (f" (note, not judged here: {err})" if err else "")
