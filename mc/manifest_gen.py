"""Regenerate MANIFEST.json from the table below:  /venv/bin/python -B -m mc.manifest_gen"""
import json
import os

HERE = os.path.dirname(os.path.dirname(os.path.abspath(__file__)))

CHECKS = {
    "C01": dict(engine="E1-orbit", design="§2 E1, §3 C01",
        technique="explicit-state orbit closure (BFS over relabelling actions to a fixpoint) of all labelled coloured graphs up to a size bound, real pipeline executed on every state",
        text="Exhaustive: every numbering of every molecule with n<=3 over 6 colours, n=4 over 4, n=5 over 3, n=6 uncoloured/one label (thorough: n=5 over 6 colours, n=6 two colours/two labels, n=7 uncoloured/one label), plus bond listing/orientation deviations, must give byte-identical strings inside each S_n orbit. Coverage statement, not a sample; sizes above the bound are reached only near named seeds.",
        note="Trusted: my orbit closure (adjacent transpositions generate S_n) and my V3000 renderer; CPython/networkx/igraph as installed."),
    "C02": dict(engine="E1-orbit", design="§2 E1, §3 C02",
        technique="explicit-state orbit enumeration; injectivity of string over all isomorphism classes in the bound",
        text="All pairs of isomorphism classes (orbit roots of my own closure, no library isomorphism test) inside the E1 bounds must have different strings.",
        note="Trusted: orbit closure as isomorphism oracle below the bound."),
    "C04": dict(engine="E1-orbit", design="§2 E1, §3 C04",
        technique="explicit-state orbit closure; canonical labelled graph signature compared on every state of each orbit",
        text="For every state of every S_n orbit in the E1 bounds the canonicalized graph (node -> element, mass, rad, class; edge set) is identical.",
        note="Trusted: orbit closure, renderer."),
    "C12": dict(engine="E1-orbit", design="§2 E1, §3 C12",
        technique="explicit-state enumeration of labelled graphs with tracer attributes + exhaustive call histories of length<=3 on retained objects",
        text="Every state carries unique coordinates, charges and bond types; the renaming must be a bijection onto 0..n-1 carrying all attributes/bonds; argument snapshots unchanged; all 39 histories of canonicalize/serialize calls per orbit root agree.",
        note="Trusted: deep snapshot of networkx graph internals (nodes, adjacency, graph attrs)."),
    "C13": dict(engine="E1-orbit", design="§2 E1, §3 C13",
        technique="explicit-state orbit closure; class vectors transported through the known relabelling; brute-force automorphism groups on orbit roots",
        text="On every state: classes are label independent (via the permutation my BFS knows), monochromatic and equitable (own refinement round); on every root every automorphism (filtering n! permutations) preserves classes.",
        note="Trusted: own refinement round and automorphism filter."),
}

NOT_YET = {
}

NA = [
]


def main():
    checks = []
    for pid, c in sorted(CHECKS.items()):
        checks.append({
            "property_id": pid,
            "quick_cmd": f"bin/check {pid} --tier quick",
            "thorough_cmd": f"bin/check {pid} --tier thorough",
            "evidence_file": f"/verif/evidence/{pid}.json",
            "replay_cmd_template": f"bin/check {pid} --replay {{path}}",
            "engine": c["engine"],
            "level_claimed": {"category": "model_checking", "text": c["text"], "design_ref": c["design"]},
            "level_note": c["note"],
            "technique": c["technique"],
        })
    all_ids = [json.loads(l)["id"] for l in open(os.path.join(HERE, "properties.jsonl"))]
    na = list(NA)
    for pid in all_ids:
        if pid not in CHECKS and pid not in [x["property_id"] for x in na]:
            na.append({"property_id": pid, "reason": NOT_YET.get(pid, "check not built yet in this session (planned, see DESIGN.md §3); not claimed until it exists")})
    m = {
        "version": 1,
        "setup_cmd": "/venv/bin/python -B -c \"import sys; sys.path.insert(0,'/repo'); import networkx, igraph, antlr4, tucan; print('ok')\"",
        "hooks": {
            "guard": "TUCAN_VERIF",
            "enable": "no source hooks are needed: checks import /repo's working tree directly (PYTHONPATH forced, location asserted); TUCAN_VERIF=1 is exported but nothing in /repo reads it",
            "baseline_off_cmd": "cd /repo && /venv/bin/python -m pytest -q -p no:cacheprovider --timeout=900 --continue-on-collection-errors",
            "source_commits": [],
            "add_only": True,
        },
        "engines": [
            {"name": "E1-orbit", "path": "mc/e1.py", "serves_properties": ["C01", "C02", "C03", "C04", "C05", "C11", "C12", "C13"],
             "kind_free_text": "explicit-state explorer: BFS closure of labelled coloured graphs under relabelling actions, real pipeline on every state"},
        ],
        "checks": checks,
        "not_applicable": na,
        "notes": "All checks explore the real implementation (no abstract model); see DESIGN.md.",
    }
    with open(os.path.join(HERE, "MANIFEST.json"), "w") as f:
        json.dump(m, f, indent=1)
    print("wrote MANIFEST.json with", len(checks), "checks")


if __name__ == "__main__":
    main()
