"""Regenerate MANIFEST.json from the table below:  /venv/bin/python -B -m mc.manifest_gen"""
import json
import os

HERE = os.path.dirname(os.path.dirname(os.path.abspath(__file__)))

CHECKS = {
    "C01": dict(engine="E1-orbit", design="§2 E1, §3 C01",
        technique="explicit-state orbit closure (BFS over relabelling actions to a fixpoint) of all labelled coloured graphs up to a size bound, real pipeline executed on every state",
        text="Exhaustive: every numbering of every molecule with n<=3 over 7 colours (incl. isotope+radical on one atom), n=4 over 5, n=5 over 3, n=6 uncoloured/one label (thorough: n=4 over 7, n=5 over 6, n=6 two colours/two labels, n=7 uncoloured/one label) must give byte-identical strings inside each S_n orbit; plus bond listing/orientation and atom-line-order deviations, graph-level descriptions (re-canonicalization, nx.relabel_nodes, reversed insertion, stale partitions, in-place edit from a neighbour molecule), a zoo of symmetric/WL-hard/multi-component seeds with every label placement under all transpositions, corpus molecules, and all colourings of chains/rings up to 8 atoms. Coverage statement, not a sample; sizes above the bound are reached only near named seeds.",
        note="Trusted: my orbit closure (adjacent transpositions generate S_n) and my V3000 renderer; CPython/networkx/igraph as installed."),
    "C02": dict(engine="E1-orbit", design="§2 E1, §3 C02",
        technique="explicit-state orbit enumeration; injectivity of string over all isomorphism classes in the bound",
        text="All pairs of isomorphism classes (orbit roots of my own closure, no library isomorphism test) inside the E1 bounds must have different strings; across label placements of each zoo seed equal strings <=> isomorphic (own search); no string shared between seeds or between decorated chains; every ordered pair of WL-equivalent non-isomorphic molecules canonicalized in sequence keeps its own string.",
        note="Trusted: orbit closure as isomorphism oracle below the bound."),
    "C04": dict(engine="E1-orbit", design="§2 E1, §3 C04",
        technique="explicit-state orbit closure; canonical labelled graph signature compared on every state of each orbit",
        text="For every state of every S_n orbit in the E1 bounds, for the graph-level derived descriptions, zoo seeds, corpus molecules and decorated chains the canonicalized graph (node -> element, mass, rad, class; edge set) is identical.",
        note="Trusted: orbit closure, renderer."),
    "C12": dict(engine="E1-orbit", design="§2 E1, §3 C12",
        technique="explicit-state enumeration of labelled graphs with tracer attributes + exhaustive call histories of length<=3 on retained objects",
        text="Every state carries unique tracer coordinates, charges and bond types; the renaming must be a bijection onto 0..n-1 carrying every input attribute and bond (also for relabelled / offset-labelled / reordered inputs); argument snapshots unchanged; results not aliased; all 39 histories of canonicalize/serialize calls per orbit root, a second drawing of the same skeleton and an in-place edit between calls agree with fresh computations.",
        note="Trusted: deep snapshot of networkx graph internals (nodes, adjacency, graph attrs)."),
    "C13": dict(engine="E1-orbit", design="§2 E1, §3 C13",
        technique="explicit-state orbit closure; class vectors transported through the known relabelling; brute-force automorphism groups on orbit roots",
        text="On every state, derived description, zoo/corpus seed and decorated chain: classes are label independent (via the permutation my BFS knows), monochromatic and equitable (own refinement round); on every orbit root every automorphism (filtering n! permutations) preserves classes.",
        note="Trusted: own refinement round and automorphism filter."),
    "C03": dict(engine="E1-orbit+E3-ref", design="§2 E1/E3, §3 C03",
        technique="explicit-state orbit enumeration; parse of every emitted string looked up in the orbit table; own isomorphism search for size/formula families",
        text="For the string of every isomorphism class in the E1 bounds (emitted from the orbit root and from the farthest renumbering) and for formula/size families (118 elements, all element pairs, 10/11/100/101-atom labelled chains/stars/combs): parse(s) lies in the same orbit (or is isomorphic by my own search), atom/bond counts equal, and tucan(parse(s)) == s.",
        note="Trusted: orbit tables, own isomorphism search (validated against orbit tables for n<=5)."),
    "C05": dict(engine="E1-orbit+E3-ref", design="§2 E3, §3 C05",
        technique="exhaustive enumeration of emitted strings over E1 classes and formula/count/zero-attribute families, judged by an EBNF-derived recogniser and an independent layout validator",
        text="Every emitted string must be accepted by the recogniser compiled from tucan.ebnf and satisfy the layout rules (Hill order from my own periodic table, counts, index blocks by atomic number, ascending unique tuples a<b, ascending attribute blocks with values >=1 that equal the molecule's labels).",
        note="Trusted: my periodic table, EBNF translation, validator written from the statement."),
    "C06": dict(engine="E2-spelling", design="§2 E2, §3 C06",
        technique="deviation-bounded exhaustive enumeration of molfile renderings (V3000 and V2000) of each molecule; differential oracle on the TUCAN string",
        text="For all 1-3 atom molecules over {C,N,H,D} plus charged/resonance seeds: every rendering with <=1 deviation (<=2 on a subset) in coordinates, bond types 1..10, charges, index maps, extra keywords/blocks, headers, CRLF gives the same string as the default rendering; all {1,2,4}^m x {-1,0,1}^n redrawings of small skeletons agree.",
        note="Trusted: my renderers follow the CTfile specification."),
    "C07": dict(engine="E2-spelling", design="§2 E2, §3 C07",
        technique="deviation-bounded exhaustive enumeration of V3000 spellings (every continuation split position, blank run, property order, index map, keyword slot, star-atom folding) against the abstract molecule",
        text="For ~230 abstract molecules every single spelling deviation (all pairs of deviations on a subset) is rendered by my own renderer and the reader's graph must equal the abstract molecule attribute for attribute; explicit zero attributes must give the same TUCAN string and written file as omitted ones.",
        note="Trusted: my V3000 renderer; stored attributes compared semantically (absent == 0)."),
    "C08": dict(engine="E2-spelling", design="§2 E2, §3 C08",
        technique="deviation-bounded exhaustive enumeration of V2000 spellings (codes vs property lines, stale codes, every composition of entries into lines, unrelated lines at every slot) against the abstract molecule and its V3000 rendering",
        text="Molecules with 1,2,3,9,10,99,100,999 atoms and all charge/radical/isotope combinations on small skeletons: every single deviation (pairs on a subset) of the V2000 spelling is read as the abstract molecule and gets the V3000 rendering's TUCAN string.",
        note="Trusted: my V2000 renderer (fixed columns, supersession rule)."),
    "C09": dict(engine="E2-writer", design="§2 E2, §3 C09",
        technique="exhaustive sweep of written line lengths / wrap alignments (library as renderer) checked by an own V3000 reader and library read-back; round trip over all E1 classes",
        text="Graphs whose atom line length takes every value from the minimum through two wraps (x digits 1..160 x sign x 4 attribute layouts), label widths up to 40 digits, all charges/radicals/bond types: no physical line > 79 chars + newline, well-formed per my own reader, reads back equal; string->graph->molfile->graph->string is the identity on every E1 class.",
        note="Trusted: own minimal V3000 reader for the writer's dialect."),
    "C10": dict(engine="E3-sentences", design="§2 E3, §3 C10",
        technique="exhaustive enumeration of token strings up to a length bound, a bounded sentence family and complete single-edit neighbourhoods, compared against a reference reader generated from tucan.ebnf",
        text="Every string of the spaces (quick ~440k, thorough several million) is run through graph_from_tucan and the reference reader: accept/reject, exception type and resulting graph must agree.",
        note="Trusted: reference reader = regex mechanically compiled from the tree's tucan.ebnf (cross-checked with a set-of-end-positions interpreter) + 40 lines of semantics."),
    "C11": dict(engine="E1-orbit+E3-ref", design="§2 E3, §3 C11",
        technique="exhaustive enumeration of meaning-preserving respellings (tuple permutations, endpoint swaps, duplicates, attribute block forms, renumberings inside element blocks) of the canonical string of every class in the bound",
        text="Every respelling, first confirmed by the reference reader to be valid and to denote the same (or the renumbered) molecule, must normalise to the canonical string; normalisation is idempotent.",
        note="Trusted: reference reader; respelling generator."),
    "C14": dict(engine="E5-environment", design="§2 E5, §3 C14",
        technique="fresh-interpreter enumeration of hash seeds; explicit-state BFS over call histories to a fixpoint of the canonical module state; stateless exploration of thread schedules with iterative context bounding under a cooperative scheduler (sys.monitoring)",
        text="250-item workload identical under 16 (thorough 256+8 random) hash seeds; BFS over 23 public calls (failing parses, rejected molfiles, reads whose results are scribbled on, calls on a retained graph object) to a fixpoint of the canonical module state (128 + 24 states) with every transition's result equal to a fresh process, plus the unmerged history tree; all schedules with <=1 preemption on 8 two-thread harnesses (incl. one starting from freshly imported modules) and <=2 preemptions on 3 short harnesses at line granularity, <=1 preemption on 3 harnesses at bytecode-instruction granularity (thorough: 2 more at bound 2, 3 threads at bound 1, the instruction-level serialize||serialize harness at bound 2) give the sequential results, terminate, leave the interpreter settings untouched and a module state on which a probe workload still agrees.",
        note="Line-granularity interleavings of instrumented code (all tucan functions + ANTLR lexer cache functions); GIL; private equal-valued inputs per thread."),
    "C15": dict(engine="E4-sizes", design="§2 E4, §3 C15",
        technique="exhaustive size ladder (every n up to N_small for 13 families) plus large sizes chosen from the measured frame-depth curve",
        text="Every family (paths, labelled paths, cycles, ladders, combs, caterpillars, peptide backbone, stars, complete graphs, isolated atoms, disjoint copies) at every n<=200 (thorough 400) and at 1000/2000 (thorough 3000/5000) atoms plus the size where the measured frame depth would cross the recursion limit: the pipeline and the parser round trip return normally with equal strings.",
        note="Default recursion limit; only observed exceptions are violations."),
    "C16": dict(engine="E5-environment", design="§2 E5, §3 C16",
        technique="exhaustive enumeration of RNG answer vectors (owned Random._randbelow: all n! shuffle outcomes, retry loop run in full to retry 2 and then closed by explicit-state matching of the running frame's control state - a repeated loop state is a cycle of the state graph - or, if the state never repeats, explored to a per-graph execution budget) for all labelled graphs n<=4 (thorough 5) + zoo; real-seed grid",
        text="For every labelled graph with tracer attributes and every shuffle outcome the result is a faithful relabelled copy in label order on the same label set, the argument is unchanged, the edge set differs when required; same seed gives the same result.",
        note="CPython's shuffle draws only via _randbelow (unowned draws are trapped and would clear the exhaustive flag). Loop control state = line + plain-valued locals + plain-valued module globals of permute_molecule; state hidden elsewhere (closures, object attributes) would not be seen by the closure rule."),
}

NOT_YET = {
}

NA = [
]


def main():
    checks = []
    for pid, c in sorted(CHECKS.items()):
        checks.append({
            "property_id": pid,
            "quick_cmd": f"bin/check {pid} --tier quick",
            "thorough_cmd": f"bin/check {pid} --tier thorough",
            "evidence_file": f"/verif/evidence/{pid}.json",
            "replay_cmd_template": f"bin/check {pid} --replay {{path}}",
            "engine": c["engine"],
            "level_claimed": {"category": "model_checking", "text": c["text"], "design_ref": c["design"]},
            "level_note": c["note"],
            "technique": c["technique"],
        })
    all_ids = [json.loads(l)["id"] for l in open(os.path.join(HERE, "properties.jsonl"))]
    na = list(NA)
    for pid in all_ids:
        if pid not in CHECKS and pid not in [x["property_id"] for x in na]:
            na.append({"property_id": pid, "reason": NOT_YET.get(pid, "check not built yet in this session (planned, see DESIGN.md §3); not claimed until it exists")})
    m = {
        "version": 1,
        "setup_cmd": "/venv/bin/python -B -c \"import sys; sys.path.insert(0,'/repo'); import networkx, igraph, antlr4, tucan; print('ok')\"",
        "hooks": {
            "guard": "TUCAN_VERIF",
            "enable": "no source hooks are needed: checks import /repo's working tree directly (PYTHONPATH forced, location asserted); TUCAN_VERIF=1 is exported but nothing in /repo reads it",
            "baseline_off_cmd": "cd /repo && /venv/bin/python -m pytest -q -p no:cacheprovider --timeout=900 --continue-on-collection-errors",
            "source_commits": [],
            "add_only": True,
        },
        "engines": [
            {"name": "E1-orbit", "path": "mc/e1.py", "serves_properties": ["C01", "C02", "C03", "C04", "C05", "C09", "C11", "C12", "C13"],
             "kind_free_text": "explicit-state explorer: BFS closure of labelled coloured graphs under relabelling actions, real pipeline on every state"},
            {"name": "E2-spelling", "path": "mc/molfile.py", "serves_properties": ["C06", "C07", "C08"],
             "kind_free_text": "nondeterministic molfile renderers (V3000/V2000) with explicit choice points; all renderings with <=d deviations from the default"},
            {"name": "E2-writer", "path": "mc/props_c09.py", "serves_properties": ["C09"],
             "kind_free_text": "library as renderer; exhaustive sweep of line lengths / wrap alignments; own reader as oracle"},
            {"name": "E3-sentences", "path": "mc/sentences.py", "serves_properties": ["C10", "C11", "C05", "C03"],
             "kind_free_text": "exhaustive string spaces + reference reader generated from tucan.ebnf (mc/ref/)"},
            {"name": "E4-sizes", "path": "mc/props_c15.py", "serves_properties": ["C15"],
             "kind_free_text": "size ladder with frame-depth probe"},
            {"name": "E5-environment", "path": "mc/props_c14.py", "serves_properties": ["C14", "C16"],
             "kind_free_text": "hash-seed enumeration, explicit-state BFS over call histories, cooperative thread scheduler with iterative context bounding (mc/sched.py), owned RNG answer enumeration (mc/props_c16.py)"},
        ],
        "checks": checks,
        "not_applicable": na,
        "notes": "All checks explore the real implementation (no abstract model); see DESIGN.md.",
    }
    with open(os.path.join(HERE, "MANIFEST.json"), "w") as f:
        json.dump(m, f, indent=1)
    print("wrote MANIFEST.json with", len(checks), "checks")


if __name__ == "__main__":
    main()
