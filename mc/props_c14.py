"""C14 / E5 — determinism across processes (hash seeds), call histories (explicit-state BFS over the module state)
and thread schedules (iterative context bounding over a cooperative scheduler)."""
from __future__ import annotations

import hashlib
import json
import os
import subprocess
import sys

from . import c14_workload as W
from . import modstate
from .common import REPO, VERIF, Report, pmap

# ================================================================================================
# 1. hash seeds: fresh interpreter per PYTHONHASHSEED
# ================================================================================================
def _run_seed(seedval):
    env = dict(os.environ)
    env["PYTHONHASHSEED"] = str(seedval)
    env["TUCAN_REPO"] = REPO
    env["PYTHONPATH"] = VERIF
    env.pop("C14_ONLY", None)
    out = subprocess.run([sys.executable, "-B", "-m", "mc.c14_workload"], cwd=VERIF, env=env, capture_output=True, text=True, timeout=600)
    if out.returncode != 0:
        raise RuntimeError(f"workload failed under seed {seedval}: {out.stderr[-2000:]}")
    return json.loads(out.stdout)


def hash_seed_engine(rep, tier):
    seeds = list(range(16)) if tier == "quick" else list(range(256)) + ["random"] * 8
    ref = None
    ref_seed = None
    nitems = 0
    outcomes = set()
    for sd, res in pmap(_run_seed, seeds):
        nitems = len(res)
        outcomes.add(hashlib.sha256(json.dumps(res, sort_keys=True).encode()).hexdigest()[:12])
        rep.add(states=1, transitions=len(res), traces_validated_against_impl=len(res))
        if ref is None:
            ref, ref_seed = res, sd
            continue
        for k in res:
            if res[k] != ref.get(k):
                rep.violation(f"C14|hashseed|{k.split('|')[0]}", {
                    "kind": "c14-hashseed", "item": k, "seed_a": ref_seed, "seed_b": sd, "n": len(k),
                    "summary": f"{k!r}: result under PYTHONHASHSEED={sd} differs from PYTHONHASHSEED={ref_seed}"})
    rep.add(hash_seeds=len(seeds), workload_items=nitems, distinct_workload_outcomes_over_seeds=len(outcomes))


# ================================================================================================
# 2. call histories
# ================================================================================================
def history_actions(tier):
    items = dict(W.items())
    names = [
        "parse|CH4/(1-5)(2-5)(3-5)(4-5)/(1:mass=2)(5:mass=13,rad=2)",
        "parse|ClH/(1-2)",
        "parse|Xy/",
        "parse|C2H6O/(1-7)(2-7)(3-7)(4-8)(5-8)(6-9)(7-8)(8-9)x",
        "parse|C2H6O/(1-7)(2-7)(3-7)(4-8)(5-8)(6-9)(7-8)(8-9",
        "parse|C/(1-1)",
        "tucan|v3:benzene-13C-rad",
        "permute|v3:cube",
        # these do not change the module state of a correct library (no new BFS states), but their results are
        # scribbled on / they are rejected inputs: a later identical call must be unaffected
        "read|v3:single",
        "read|v2:ethanol-d",
        "canon|v3:salt",
        "read|bad:pseudo-X",
        "read|bad:pseudo-RX",
        "read|bad:pseudo-XR",
        "read|v2codes:D+",
        "read|bad:v2codes:D+ no end",
        "read|v2codes:NH4+",
        "write-calc|v3:isoA",
        "write-calc|v3:isoB",
        # a graph object the caller keeps: serializing it, canonicalizing it, serializing it again
        "serialize-retained|benzene-13C-rad",
        "canon-retained|benzene-13C-rad",
    ]
    if tier == "thorough":
        names += ["parse|Og2/(1-2)/(2:mass=294)(1:mass=295)", "parse|C//(1:mass=2,mass=3)", "parse|C/(1 -2)",
                  "tucan|v2:ethanol-d", "write-canon|v3:k33-labelled", "norm|BBr3/(3-1)(2-1)(1-4)(1-4)"]
    return [(n, items[n]) for n in names]


def _digest(r):
    return hashlib.sha256(r.encode()).hexdigest()[:16]


def _reference_result(name):
    """Result of the single call in a fresh interpreter."""
    env = dict(os.environ)
    env["C14_ONLY"] = name
    env["TUCAN_REPO"] = REPO
    env["PYTHONPATH"] = VERIF
    env["PYTHONHASHSEED"] = "0"
    out = subprocess.run([sys.executable, "-B", "-c",
                          "import sys; sys.path.insert(0, %r)\n"
                          "from mc.common import setup_paths; setup_paths()\n"
                          "from mc import c14_workload as W, props_c14 as P\n"
                          "import os\n"
                          "fn = dict(W.items())[os.environ['C14_ONLY']]\n"
                          "print(P._digest(W.run_item(fn)))" % VERIF],
                         cwd=VERIF, env=env, capture_output=True, text=True, timeout=300)
    if out.returncode != 0:
        raise RuntimeError(out.stderr[-2000:])
    return name, out.stdout.strip()


_ACTIONS = None


def _expand(job):
    """Replay `hist` from the cold state once per action, apply the action, compare, fingerprint."""
    tier, hist, refs = job[:3]
    shortcut = job[3] if len(job) > 3 else True
    subset = job[4] if len(job) > 4 else None
    global _ACTIONS
    if _ACTIONS is None or _ACTIONS[0] != tier:
        _ACTIONS = (tier, history_actions(tier))
    acts = _ACTIONS[1]
    out = []
    fresh = False
    fp_here = None
    for ai, (name, fn) in enumerate(acts):
        if subset is not None and ai not in subset:
            continue
        if not fresh:
            modstate.reset("cold")
            for h in hist:
                W.run_item(acts[h][1])
            fp_here = modstate.fingerprint()
            fresh = True
        r = _digest(W.run_item(fn))
        fp = modstate.fingerprint()
        out.append((ai, r == refs[name], fp, r))
        # an action that leaves the canonical state unchanged is a self-loop: the next action may start from here
        # (same assumption as state merging: equal fingerprints have equal futures); otherwise replay the history
        fresh = shortcut and fp == fp_here
    return out


def history_engine(rep, tier):
    acts = history_actions(tier)
    refs = dict(r for _, r in pmap(_reference_result, [n for n, _ in acts]))
    # Two action menus are explored to a fixpoint separately (the dimensions are independent: the retained-object actions
    # do not touch the ANTLR caches and vice versa); sequences mixing both menus are covered by the unmerged tree below.
    retained = [i for i, (n, _) in enumerate(acts) if "retained" in n]
    core_parse = [i for i, (n, _) in enumerate(acts) if n.startswith("parse|")][:3]
    menus = {"library-state menu": [i for i in range(len(acts)) if i not in retained],
             "retained-object menu": sorted(set(retained + core_parse + [i for i, (n, _) in enumerate(acts) if n.startswith(("tucan|", "canon|"))]))}
    max_states = 400 if tier == "quick" else 6000
    total_states = 0
    transitions = 0
    per_menu = {}
    longest = ()
    for mname, subset in menus.items():
        modstate.reset("cold")
        seen = {modstate.fingerprint(): ()}
        frontier = [()]
        depth = 0
        capped = False
        mtrans = 0
        while frontier and not capped:
            depth += 1
            nxt = []
            for job, res in pmap(_expand, [(tier, h, refs, True, subset) for h in frontier]):
                h = job[1]
                for ai, ok, fp, r in res:
                    mtrans += 1
                    if not ok:
                        rep.violation(f"C14|history|{acts[ai][0].split('|')[0]}", {
                            "kind": "c14-history", "history": [acts[x][0] for x in h], "action": acts[ai][0], "n": len(h),
                            "summary": f"after history {[acts[x][0] for x in h]} the call {acts[ai][0]!r} gives a different result than in a fresh process"})
                    if fp not in seen:
                        seen[fp] = h + (ai,)
                        nxt.append(h + (ai,))
            frontier = sorted(nxt)
            if len(seen) > max_states:
                capped = True
        per_menu[mname] = {"actions": len(subset), "states": len(seen), "transitions": mtrans, "depth": depth, "fixpoint_reached": not capped}
        total_states += len(seen)
        transitions += mtrans
        if capped:
            rep.cov["exhaustive"] = False
        cand = max(seen.values(), key=len)
        if len(cand) > len(longest):
            longest = cand
    seen = {None: longest}
    rep.add(states=total_states, transitions=transitions, traces_validated_against_impl=transitions,
            history_states=total_states, history_transitions=transitions, history_actions=len(acts), history_menus=per_menu)
    # unmerged tree (validates the state canonicalisation): all histories up to depth 2 (quick) / 3 (thorough)
    from itertools import product

    L = 2 if tier == "quick" else 3
    tree = [h for l in range(1, L) for h in product(range(len(acts)), repeat=l)]
    tcount = 0
    for job, res in pmap(_expand, [(tier, h, refs, False) for h in tree]):  # no fingerprint-based shortcut here
        for ai, ok, fp, r in res:
            tcount += 1
            if not ok:
                h = job[1]
                rep.violation(f"C14|history|{acts[ai][0].split('|')[0]}", {
                    "kind": "c14-history", "history": [acts[x][0] for x in h], "action": acts[ai][0], "n": len(h),
                    "summary": f"(unmerged tree) after {[acts[x][0] for x in h]} the call {acts[ai][0]!r} differs from a fresh process"})
    rep.add(unmerged_tree_histories=tcount, transitions=tcount, traces_validated_against_impl=tcount)
    rep.sample({"history": [acts[x][0] for x in (max(seen.values(), key=len))], "meaning": "longest history needed to reach a new module state"})


# ================================================================================================
# 3. thread schedules
# ================================================================================================
def _sched_codes():
    import importlib

    from . import sched as S

    codes = []
    base = ["tucan.canonicalization", "tucan.serialization", "tucan.graph_utils", "tucan.io.molfile_reader",
            "tucan.io.molfile_v2000_reader", "tucan.io.molfile_v3000_reader", "tucan.io.molfile_writer",
            "tucan.parser.parser", "tucan.element_attributes"]
    for m in base:
        importlib.import_module(m)
    generated = ("tucan.parser.tucanParser", "tucan.parser.tucanLexer", "tucan.parser.tucanListener")
    # every module of the package that is loaded (a change may add helper modules), except the generated parser
    # classes, whose shared state (ATN, DFA caches) is reached through the runtime functions instrumented below
    mods = sorted(k for k in sys.modules if (k == "tucan" or k.startswith("tucan.")) and k not in generated
                  and not k.startswith(("tucan.visualization", "tucan.test_utils")))
    for m in mods:
        if sys.modules[m] is not None:
            codes += S.code_objects_of(sys.modules[m])
    from antlr4.atn.ATN import ATN
    from antlr4.atn.LexerATNSimulator import LexerATNSimulator
    from antlr4.dfa.DFA import DFA
    from antlr4.dfa.DFAState import DFAState

    codes += S.code_objects_of(LexerATNSimulator, names={"match", "matchATN", "execATN", "getExistingTargetState",
                                                         "computeTargetState", "addDFAEdge", "addDFAState"})
    codes += S.code_objects_of(ATN, names={"nextTokensNoContext", "nextTokens"})
    codes += S.code_objects_of(DFA, names={"states"})
    codes += S.code_objects_of(DFAState, names={"__hash__", "__eq__"})
    # DFA.states is a property
    codes.append(DFA.states.fget.__code__)
    return list(dict.fromkeys(codes))


def harnesses(tier):
    items = dict(W.items())
    H = {
        "H1 parse||parse (overlapping alphabets)": (["parse|ClH/(1-2)", "parse|HHeHf//(3:mass=180)"], "dfa-cold"),
        "H2 failing parse||valid parse": (["parse|C/(1 -2)", "parse|ClH/(1-2)"], "dfa-cold"),
        "H4 parse||canonicalize+serialize": (["parse|ClH/(1-2)", "tucan|v3:single"], "dfa-cold"),
        "H5 tucan||tucan": (["tucan|v3:salt", "tucan|v2:ethanol-d"], "dfa-cold"),
        "H6 write||write": (["write-canon|v3:salt", "write|v3:single"], "dfa-cold"),
        "H8 read v3||read v3": (["read|v3:star", "read|v3:split"], "dfa-cold"),
        "H9 read v2||canon": (["read|v2:isolated", "canon|v3:salt"], "dfa-cold"),
        # single calls on prebuilt inputs: short bodies, explored to preemption bound 2
        "T3 canonicalize||canonicalize": (["canon-pre|v3:single", "canon-pre|v3:isoA"], "dfa-cold"),
        "T4 serialize||serialize": (["serialize-pre|v3:single", "serialize-pre|v3:single"], "dfa-cold"),
        "T5 write||canonicalize": (["write-pre|v3:single", "canon-pre|v3:salt"], "dfa-cold"),
        # the same single calls with every BYTECODE INSTRUCTION of the library's own functions as a scheduling point
        # (races inside one source line), preemption bound 1
        "I3 canonicalize||canonicalize (instruction level)": (["canon-pre|v3:single", "canon-pre|v3:isoA"], "dfa-cold"),
        "I4 serialize||serialize (instruction level)": (["serialize-pre|v3:single", "serialize-pre|v3:isoA"], "dfa-cold"),
        "I5 write||canonicalize (instruction level)": (["write-pre|v3:single", "canon-pre|v3:salt"], "dfa-cold"),
        # fresh module-level state of the whole library before every execution (first use of lazily built tables)
        "H0 cold modules: read||read": (["read|v3:single", "read|v3:many-elements"], "cold-modules"),
    }
    if tier == "thorough":
        H["H3 failing||valid on warmed cache"] = (["parse|Xy/", "parse|ClH/(1-2)"], "dfa-warm")
        H["H6b read v3||read v2||parse"] = (["read|v3:single", "read|v2:isolated", "parse|ClH/(1-2)"], "dfa-cold")
        # (no permute||permute harness: permute_molecule seeds and draws from the process-wide `random` generator, so two
        # concurrent callers do disturb each other — observed with a single preemption — but the helper is not among the
        # operations C14 enumerates and C16 quantifies over graphs and seeds only; recorded in DESIGN.md §10.6)
        H["H7 write||tucan"] = (["write-canon|v3:salt", "tucan|v3:single"], "dfa-cold")
        # short bodies, explored to preemption bound 2 (the long harnesses would need ~10^7 schedules)
        H["T1 empty-molecule parse||lexer-error parse"] = (["parse|/", "parse|Xy/"], "dfa-cold")
        H["T2 empty-molecule parse||syntax-error parse"] = (["parse|/", "parse|HC/"], "dfa-cold")
    return {k: ([(n, items[n]) for n in names], init) for k, (names, init) in H.items()}


_SCHED = None
_WARMED = False


def _init_state(init):
    global _WARMED
    if not _WARMED:
        modstate.reset("cold")
        modstate.warm_memo()
        _WARMED = True
    modstate.reset("keep")
    if init == "dfa-warm":
        W.run_item(dict(W.items())["parse|CH4/(1-5)(2-5)(3-5)(4-5)/(1:mass=2)(5:mass=13,rad=2)"])
    elif init == "all-cold":
        modstate.reset("cold")


_PROBE = ["parse|C2H6O/(1-7)(2-7)(3-7)(4-8)(5-8)(6-9)(7-8)(8-9)", "parse|Xy/", "norm|ClH/(1-2)"]


def _sched_job(job):
    """Run one batch of schedules of a harness: job = (tier, hname, first, list of preemption lists, refs)."""
    global _SCHED
    from . import sched as S

    tier, hname, first, plists, refs, probe_refs = job
    if _SCHED is None:
        _SCHED = S.Scheduler()
        _SCHED.instrument(_sched_codes())
    want = "instruction" if hname.startswith("I") else "line"
    if getattr(_SCHED, "mode", "line") != want:
        _SCHED.uninstrument()
        codes = _sched_codes()
        fine = [c for c in codes if "/tucan/" in c.co_filename.replace("\\", "/") and "/antlr4/" not in c.co_filename] if want == "instruction" else ()
        _SCHED.instrument(codes, fine)
    bodies_named, init = harnesses(tier)[hname]
    items = dict(W.items())
    out = []
    deadlocked = False
    for pl in plists:
        if deadlocked:
            break
        if init == "cold-modules":
            _reimport_tucan()
            _SCHED.uninstrument()
            _SCHED.instrument(_sched_codes())
            bodies_named, _ = harnesses(tier)[hname]
            items = dict(W.items())
            modstate.reset("keep")
        else:
            _init_state(init)
        if hname.startswith(("T3", "T4", "T5", "I3", "I4", "I5")) and not W._PRE:
            for _n, _fn in bodies_named:
                W.run_item(_fn)  # builds the shared prebuilt inputs outside the managed threads
        settings_before = _interpreter_settings()
        bodies = [(lambda fn=fn: _digest(W.run_item(fn))) for _, fn in bodies_named]
        try:
            r = _SCHED.run(bodies, first=first, preemptions=pl, record_trace=True, timeout=90.0)
        except S.Divergence as ex:
            if "timeout" in str(ex) or "never scheduled" in str(ex) or "starved" in str(ex):
                # all managed threads are blocked outside scheduling points (normal executions take milliseconds):
                # the callers deadlocked. Threads stay stuck, so this worker stops exploring the harness.
                deadlocked = True
                out.append((pl, 0, [f"execution did not terminate within 90 s (deadlock between the concurrent callers): {ex}"],
                            (), None, "deadlock"))
                continue
            raise RuntimeError(f"scheduler error in {hname} first={first} preemptions={pl}: {ex}")
        bad = []
        if _interpreter_settings() != settings_before:
            bad.append(f"process-wide interpreter settings changed by the execution: {settings_before} -> {_interpreter_settings()}")
            sys.setrecursionlimit(settings_before[0])
        for i, (name, _) in enumerate(bodies_named):
            res = r["results"][i]
            if res[0] != "ok" or res[1] != refs[name]:
                bad.append(f"thread {i} ({name}) -> {res if res[0] != 'ok' else 'different result'}")
        if not bad:
            for pn in _PROBE:
                if _digest(W.run_item(items[pn])) != probe_refs[pn]:
                    bad.append(f"after the execution, sequential probe {pn!r} differs from the reference")
        # per-thread line paths (non-vacuity)
        paths = tuple(hashlib.sha256(repr([e[1:] for e in r["trace"] if e[0] == i]).encode()).hexdigest()[:8]
                      for i in range(len(bodies_named)))
        ext = None
        if len(pl) < job_bound(job):
            last = pl[-1][0] if pl else -1
            ext = [(s, t) for s in range(last + 1, r["steps"]) for t in r["enabled_at"][s]]
        out.append((pl, r["steps"], bad, paths, ext, modstate.fingerprint()))
    return out


def _interpreter_settings():
    """Process-wide settings an operation may touch temporarily but must leave as it found them."""
    import decimal
    import locale

    return (sys.getrecursionlimit(), sys.getswitchinterval(), decimal.getcontext().prec, locale.setlocale(locale.LC_NUMERIC, None),
            sys.get_int_max_str_digits())


def _reimport_tucan():
    """Fresh module-level state of the library: drop every tucan module and import the package again (in the main
    thread, so that lazily initialised tables are built by whichever managed thread uses them first)."""
    import importlib

    keep = ("tucan.parser.tucanParser", "tucan.parser.tucanLexer", "tucan.parser.tucanListener")  # generated; their only
    # module state (ATN memos, DFA caches) is reset by modstate; deserialising the ATN again costs 0.4 s
    for k in [k for k in sys.modules if (k == "tucan" or k.startswith("tucan.")) and k not in keep]:
        del sys.modules[k]
    for m in ("tucan", "tucan.io", "tucan.canonicalization", "tucan.serialization", "tucan.graph_utils", "tucan.parser.parser"):
        importlib.import_module(m)


_BOUND = {}


def job_bound(job):
    return _BOUND.get((job[0], job[1]), 1)


def _seq_refs(names):
    """Single-threaded, fresh-state reference results (computed in this process on reset state)."""
    items = dict(W.items())
    out = {}
    for n in names:
        modstate.reset("cold")
        out[n] = _digest(W.run_item(items[n]))
    return out


def schedule_engine(rep, tier):
    H = harnesses(tier)
    only = os.environ.get("VERIF_C14_HARNESSES")  # development knob: comma-separated harness-name prefixes
    if only:
        H = {k: v for k, v in H.items() if k.startswith(tuple(only.split(",")))}
        rep.cov["exhaustive"] = False
        rep.assumptions.append(f"PARTIAL RUN: VERIF_C14_HARNESSES={only}")
    all_names = sorted({n for bodies, _ in H.values() for n, _ in bodies} | set(_PROBE))
    refs = _seq_refs(all_names)
    per_h = {}
    for hname, (bodies, init) in H.items():
        nthreads = len(bodies)
        bound = 1
        if nthreads == 2 and hname.startswith(("T3", "T4", "T5")):
            bound = 2
        if tier == "thorough" and nthreads == 2 and hname.startswith(("T1", "T2", "I4")):
            bound = 2  # thorough: the instruction-level serialize||serialize harness to two preemptions as well (~0.7 M schedules)
        _BOUND[(tier, hname)] = bound
        stats = {"schedules": 0, "steps": 0, "paths": set(), "final_states": set(), "bound": bound, "threads": nthreads,
                 "by_preemptions": {}}
        # level 0
        level = [(first, []) for first in range(nthreads)]
        k = 0
        cap = 3000000
        capped = False
        while level and k <= bound:
            jobs = []
            byfirst = {}
            for first, pl in level:
                byfirst.setdefault(first, []).append(pl)
            for first, pls in byfirst.items():
                for i in range(0, len(pls), 40):
                    jobs.append((tier, hname, first, pls[i:i + 40], refs, refs))
            nxt = []
            for job, res in pmap(_sched_job, jobs):
                for pl, steps, bad, paths, ext, fp in res:
                    stats["schedules"] += 1
                    stats["steps"] += steps
                    stats["paths"].add(paths)
                    stats["final_states"].add(fp)
                    stats["by_preemptions"][len(pl)] = stats["by_preemptions"].get(len(pl), 0) + 1
                    if bad:
                        stats["violations"] = stats.get("violations", 0) + 1
                        rep.violation(f"C14|schedule|{hname.split()[0]}", {
                            "kind": "c14-schedule", "harness": hname, "first": job[2], "preemptions": pl, "tier": tier, "n": len(pl),
                            "summary": f"{hname}: first={job[2]} preemptions={pl}: {'; '.join(bad)}"})
                    if ext and k < bound:
                        for e in ext:
                            nxt.append((job[2], pl + [e]))
            if stats.get("violations"):
                nxt = []  # the counterexample with the fewest preemptions is found; do not explore deeper
            if len(nxt) > cap:
                capped = True
                nxt = nxt[:cap]
            level = nxt
            k += 1
        rep.add(states=stats["schedules"], transitions=stats["steps"], traces_validated_against_impl=stats["schedules"])
        if capped:
            rep.cov["exhaustive"] = False
        per_h[hname] = {"threads": nthreads, "preemption_bound_completed": bound, "schedules": stats["schedules"],
                        "by_preemptions": stats["by_preemptions"], "scheduling_points_total": stats["steps"],
                        "distinct_thread_line_paths": len(stats["paths"]), "distinct_final_module_states": len(stats["final_states"]),
                        "capped": capped}
    rep.add(schedule_harnesses=per_h)
    rep.add(distinct_nontrivial=sum(v["distinct_thread_line_paths"] for v in per_h.values()))
    rep.sample({"harness": next(iter(H)), "first": 0, "preemptions": [[57, 1]],
                "meaning": "thread 0 runs 57 scheduling points, is preempted, thread 1 runs to completion, thread 0 resumes"})


def run(tier):
    import time

    rep = Report("C14", tier)
    t0 = time.time()
    partial = bool(os.environ.get("VERIF_C14_HARNESSES"))
    if not partial:
        hash_seed_engine(rep, tier)
    t1 = time.time()
    if not partial:
        history_engine(rep, tier)
    t2 = time.time()
    schedule_engine(rep, tier)
    rep.add(engine_wall_s={"hash_seeds": round(t1 - t0, 1), "histories": round(t2 - t1, 1), "schedules": round(time.time() - t2, 1)})
    rep.add(rule="(1) the whole workload in a fresh interpreter per PYTHONHASHSEED; (2) BFS over call histories to a fixpoint of the "
                 "canonical module state (lexer DFA cache shape, nextTokenWithinRule memos, global RNG state), every transition's "
                 "result compared with a fresh process; (3) all thread schedules with <= bound preemptions at line granularity over "
                 "the harnesses; non-trivial = distinct per-thread line paths (a path different from the sequential one proves the "
                 "threads interacted through shared state)")
    rep.assumptions += ["line-granularity interleavings of the instrumented code objects (all tucan functions + the ANTLR lexer cache "
                        "functions); CPython GIL; each thread has private equal-valued inputs",
                        "module-state inventory: lexer/parser DFA caches, sharedContextCache, nextTokenWithinRule memos, global random"]
    return rep.finish()


def replay(prop, rec):
    if rec["kind"] == "c14-hashseed":
        a = _run_seed(rec["seed_a"])
        b = _run_seed(rec["seed_b"])
        k = rec["item"]
        return a.get(k) != b.get(k), f"{k}: {a.get(k)} vs {b.get(k)}"
    if rec["kind"] == "c14-history":
        items = dict(W.items())
        _, ref = _reference_result(rec["action"])
        modstate.reset("cold")
        for h in rec["history"]:
            W.run_item(items[h])
        r = _digest(W.run_item(items[rec["action"]]))
        return r != ref, f"history {rec['history']} then {rec['action']}: {r} vs fresh-process {ref}"
    if rec["kind"] == "c14-schedule":
        tier = rec.get("tier", "quick")
        H = harnesses(tier)
        if rec["harness"] not in H:
            tier = "thorough"
            H = harnesses(tier)
        names = sorted({n for n, _ in H[rec["harness"]][0]} | set(_PROBE))
        refs = _seq_refs(names)
        _BOUND[(tier, rec["harness"])] = 0
        pl = [tuple(p) for p in rec["preemptions"]]
        outs = []
        for _ in range(2):  # replay twice: the same schedule must fail every time
            res = _sched_job((tier, rec["harness"], rec["first"], [pl], refs, refs))
            outs.append(res[0][2])
        if bool(outs[0]) != bool(outs[1]):
            return True, f"NON-DETERMINISTIC replay: {outs}"
        return bool(outs[0]), "; ".join(outs[0]) or "all threads agree with the sequential reference under this schedule"
    return False, "unknown kind"
