"""E2 — abstract molecules and nondeterministic molfile renderers (V3000, V2000) with explicit choice points.

Written from the BIOVIA CTfile specification (2020), not from the library's readers. The abstract molecule
is the oracle: a rendering never asks the library anything.
"""
from __future__ import annotations

import copy
from dataclasses import dataclass, field
from itertools import combinations, permutations

from .ref.periodic import Z


@dataclass
class Atom:
    el: str
    chg: int = 0
    rad: int = 0
    mass: int = 0
    xyz: tuple = (0.0, 0.0, 0.0)


@dataclass
class Mol:
    atoms: list
    bonds: list = field(default_factory=list)  # (i, j, type) 0-based

    def copy(self):
        return copy.deepcopy(self)

    def colours(self):
        return [(a.el, a.mass or None, a.rad or None) for a in self.atoms]


def fmt_num(x):
    if isinstance(x, int):
        return str(x)
    s = repr(float(x))
    return s


# ================================================================================================
# V3000
# ================================================================================================
DEFAULT_HEADER = ("", "  mc-e2", "")
V3_VERSION_LINE = "  0  0  0     0  0            999 V3000"

EXTRA_ATOM_KW = ["CFG=1", "VAL=2", "HCOUNT=1", "STBOX=1", "INVRET=1", "EXACHG=1", "SUBST=2", "UNSAT=1", "RBCNT=2",
                 "ATTCHPT=1", "RGROUPS=(2 1 2)", "ATTCHORD=(2 1 2)", "CLASS=AA", "SEQID=4"]
EXTRA_BOND_KW = ["CFG=1", "TOPO=1", "RXCTR=4", "STBOX=1"]
TRAILING_BLOCKS = {
    "SGROUP": ["BEGIN SGROUP", "1 SUP 1 ATOMS=(1 1) LABEL=X", "END SGROUP"],
    "COLLECTION": ["BEGIN COLLECTION", "MDLV30/STEABS ATOMS=(1 1)", "END COLLECTION"],
    "LINKNODE": ["LINKNODE 1 3 2 1 1 1 1"],
    "EMPTYSGROUP": ["BEGIN SGROUP", "END SGROUP"],
}
PROP_KEYS = ("CHG", "RAD", "MASS")


def default_spelling():
    return {
        "index_map": None,      # list: file index of atom i
        "prop_order": {},       # atom i -> tuple of keys
        "explicit_zero": [],    # (i, key)
        "extra_atom_kw": [],    # (i, slot, token)   slot: position among the property tokens
        "extra_bond_kw": [],    # (j, slot, token)
        "aamap": {},            # i -> int
        "dt": [],               # atoms written as D / T
        "star": [],             # (center, [bond idx...], star_first, star_line_pos, star_index, attach)
        "counts_extra": [],     # extra tokens on the COUNTS line
        "chiral": 0,
        "blocks": [],           # trailing block names
        "empty_bond_block": False,
        "header": DEFAULT_HEADER,
        "bond_order": None,     # permutation of bond indices
        "bond_flip": [],        # bond indices written b a
        # text level
        "blanks": [],           # (v30 line no, gap no, run length)  gap 0 = before first token, last = trailing
        "splits": [],           # (v30 line no, position in content)
        "eol": "\n",
        "final_newline": True,
    }


def v3000_token_lines(M: Mol, sp: dict):
    """Returns list of token lists (content of each 'M  V30 ' line, in order)."""
    n = len(M.atoms)
    imap = sp["index_map"] or list(range(1, n + 1))
    assert len(set(imap)) == n and all(i >= 1 for i in imap)
    stars = sp["star"]
    folded = {}
    for si, (center, bidx, star_first, pos, sidx, attach) in enumerate(stars):
        for j in bidx:
            assert j not in folded
            folded[j] = si
    atom_lines = []
    for i, a in enumerate(M.atoms):
        sym = a.el
        mass = a.mass
        if i in sp["dt"]:
            assert a.el == "H" and a.mass in (2, 3)
            sym = "D" if a.mass == 2 else "T"
            mass = 0
        x, y, z = a.xyz
        toks = [str(imap[i]), sym, fmt_num(x), fmt_num(y), fmt_num(z), str(sp["aamap"].get(i, 0))]
        vals = {"CHG": a.chg, "RAD": a.rad, "MASS": mass}
        order = sp["prop_order"].get(i, PROP_KEYS)
        props = []
        for k in order:
            if vals[k] != 0 or (i, k) in sp["explicit_zero"]:
                props.append(f"{k}={vals[k]}")
        for (ai, slot, tok) in sp["extra_atom_kw"]:
            if ai == i:
                props.insert(min(slot, len(props)), tok)
        atom_lines.append(toks + props)
    # star atoms
    star_lines = []
    for (center, bidx, star_first, pos, sidx, attach) in stars:
        star_lines.append((pos, [str(sidx), "*", "0", "0", "0", "0"]))
    for pos, toks in sorted(star_lines, key=lambda t: -t[0]):
        atom_lines.insert(min(pos, len(atom_lines)), toks)
    # bonds
    order = sp["bond_order"] or list(range(len(M.bonds)))
    bond_lines = []
    done_star = set()
    for j in order:
        a, b, t = M.bonds[j]
        if j in folded:
            si = folded[j]
            if si in done_star:
                continue
            done_star.add(si)
            center, bidx, star_first, pos, sidx, attach = stars[si]
            ends = []
            for jj in bidx:
                aa, bb, tt = M.bonds[jj]
                assert tt == t and center in (aa, bb)
                ends.append(imap[bb if aa == center else aa])
            pair = [str(sidx), str(imap[center])] if star_first else [str(imap[center]), str(sidx)]
            toks = [None, str(t)] + pair
            kws = [f"ENDPTS=({len(ends)} {' '.join(map(str, ends))})"]
            if attach:
                kws.append(f"ATTACH={attach}") if attach[0] != "<" else kws.insert(0, f"ATTACH={attach[1:]}")
            toks += kws
        else:
            if j in sp["bond_flip"]:
                a, b = b, a
            toks = [None, str(t), str(imap[a]), str(imap[b])]
            extra = [(slot, tok) for (bj, slot, tok) in sp["extra_bond_kw"] if bj == j]
            for slot, tok in extra:
                toks.insert(4 + min(slot, len(toks) - 4), tok)
        bond_lines.append(toks)
    for k, toks in enumerate(bond_lines):
        toks[0] = str(k + 1)
    lines = [["BEGIN", "CTAB"]]
    lines.append(["COUNTS", str(len(atom_lines)), str(len(bond_lines)), "0", "0", str(sp["chiral"])] + list(sp["counts_extra"]))
    lines.append(["BEGIN", "ATOM"])
    lines += atom_lines
    lines.append(["END", "ATOM"])
    if bond_lines or sp["empty_bond_block"]:
        lines.append(["BEGIN", "BOND"])
        lines += bond_lines
        lines.append(["END", "BOND"])
    for b in sp["blocks"]:
        for l in TRAILING_BLOCKS[b]:
            lines.append(l.split(" "))
    lines.append(["END", "CTAB"])
    return lines


def v3000_text(M: Mol, sp: dict | None = None) -> str:
    sp = sp or default_spelling()
    tl = v3000_token_lines(M, sp)
    blanks = {}
    for (ln, gap, run) in sp["blanks"]:
        blanks[(ln, gap)] = run
    phys = list(sp["header"]) + [V3_VERSION_LINE]
    for ln, toks in enumerate(tl):
        content = " " * blanks.get((ln, 0), 0)
        for g, t in enumerate(toks):
            if g:
                content += " " * blanks.get((ln, g), 1)
            content += t
        content += " " * blanks.get((ln, len(toks)), 0)
        cuts = sorted(p for (l2, p) in sp["splits"] if l2 == ln)
        prev = 0
        for p in cuts:
            assert 0 < p < len(content) and p > prev
            phys.append("M  V30 " + content[prev:p] + "-")
            prev = p
        phys.append("M  V30 " + content[prev:])
    phys.append("M  END")
    text = sp["eol"].join(phys)
    if sp["final_newline"]:
        text += sp["eol"]
    return text


def v3000_content_lengths(M, sp):
    """Length of each V30 line's content under spelling sp (without splits) — to enumerate split positions."""
    tl = v3000_token_lines(M, sp)
    blanks = {(ln, gap): run for (ln, gap, run) in sp["blanks"]}
    out = []
    for ln, toks in enumerate(tl):
        L = blanks.get((ln, 0), 0) + blanks.get((ln, len(toks)), 0)
        for g, t in enumerate(toks):
            if g:
                L += blanks.get((ln, g), 1)
            L += len(t)
        out.append((L, len(toks)))
    return out


# ---- deviations ------------------------------------------------------------------------------------
def with_(sp, **kw):
    s2 = copy.deepcopy(sp)
    for k, v in kw.items():
        if isinstance(s2[k], list) and isinstance(v, list):
            s2[k] = s2[k] + v
        elif isinstance(s2[k], dict) and isinstance(v, dict):
            s2[k].update(v)
        else:
            s2[k] = v
    return s2


def v3_structure_deviations(M: Mol, tier="quick"):
    """Single spec-conformant structure-level deviations that keep the abstract molecule identical.
    Yields (label, kwargs for with_)."""
    n = len(M.atoms)
    # property order
    for i, a in enumerate(M.atoms):
        present = [k for k, v in zip(PROP_KEYS, (a.chg, a.rad, a.mass)) if v]
        for p in permutations(PROP_KEYS):
            if p != PROP_KEYS and [k for k in p if k in present] != present:
                yield (f"proporder[{i}]={p}", {"prop_order": {i: p}})
        for k, v in zip(PROP_KEYS, (a.chg, a.rad, a.mass)):
            if not v:
                yield (f"explicit0[{i}].{k}", {"explicit_zero": [(i, k)]})
        if a.el == "H" and a.mass in (2, 3):
            yield (f"DT[{i}]", {"dt": [i]})
            # the symbol D/T together with the explicitly written default MASS=0 still denotes hydrogen-2/3
            yield (f"DT[{i}]+explicit0.MASS", {"dt": [i], "explicit_zero": [(i, "MASS")]})
        nprops = len(present)
        for tok in EXTRA_ATOM_KW:
            for slot in range(nprops + 1):
                yield (f"atomkw[{i}]@{slot}:{tok}", {"extra_atom_kw": [(i, slot, tok)]})
        yield (f"aamap[{i}]", {"aamap": {i: 3}})
    # index maps
    maps = []
    if n <= 4:
        maps += [list(p) for p in permutations(range(1, n + 1)) if list(p) != list(range(1, n + 1))]
    else:
        maps.append(list(range(n, 0, -1)))
    maps.append([7 + 35 * i + (i * i) % 5 for i in range(n)])
    maps.append([1000 + i for i in range(n)])
    maps.append([n + 5 - i for i in range(n)])
    for m in maps:
        yield (f"indexmap={m}", {"index_map": m})
    # bonds
    for j in range(len(M.bonds)):
        yield (f"flip[{j}]", {"bond_flip": [j]})
        for tok in EXTRA_BOND_KW:
            yield (f"bondkw[{j}]:{tok}", {"extra_bond_kw": [(j, 0, tok)]})
    nbonds = len(M.bonds)
    if 1 < nbonds <= 3:
        for p in permutations(range(nbonds)):
            if list(p) != list(range(nbonds)):
                yield (f"bondorder={p}", {"bond_order": list(p)})
    elif nbonds > 3:
        for k in range(nbonds - 1):
            p = list(range(nbonds))
            p[k], p[k + 1] = p[k + 1], p[k]
            yield (f"bondorder={tuple(p)}", {"bond_order": p})
        yield (f"bondorder=reversed", {"bond_order": list(range(nbonds - 1, -1, -1))})
    # star atoms: every subset of >=2 same-type bonds at one atom
    for c in range(n):
        inc = [j for j, (a, b, t) in enumerate(M.bonds) if c in (a, b)]
        if len(inc) > 6:
            subsets = [tuple(inc), tuple(inc[:-1]), tuple(inc[:10]), tuple(inc[:9]), tuple(inc[1:12])]
            subsets = list(dict.fromkeys(x for x in subsets if len(x) >= 2))
        else:
            subsets = [sub for k in range(2, len(inc) + 1) for sub in combinations(inc, k)]
        for sub in subsets:
            for _once in (0,):
                if len({M.bonds[j][2] for j in sub}) != 1:
                    continue
                for star_first in (False, True):
                    for pos, sidx in ((n, n + 1), (0, n + 1), (1, 99)):
                        for attach in ("ALL", "<ANY", None):
                            if tier == "quick" and (pos, attach) not in ((n, "ALL"), (0, "<ANY"), (1, None)):
                                continue
                            yield (f"star[c={c},bonds={sub},first={star_first},pos={pos},idx={sidx},attach={attach}]",
                                   {"star": [(c, list(sub), star_first, pos, sidx, attach)]})
    yield ("counts:REGNO", {"counts_extra": ["REGNO=1234"]})
    yield ("chiral=1", {"chiral": 1})
    for b in TRAILING_BLOCKS:
        yield (f"block:{b}", {"blocks": [b]})
    if not M.bonds:
        yield ("empty-bond-block", {"empty_bond_block": True})
    for hdr in (("name", "  prog", "comment"), ("x-", "M  V30 y", "-"), ("", "M  V30 free text-", ""),
                ("", "", "M  V30 -"), ("M  END", "$$$$", "V2000"),
                ("  0  0  0     0  0            999 V2000", "", "")):
        yield (f"header={hdr}", {"header": hdr})
    yield ("eol=CRLF", {"eol": "\r\n"})
    yield ("no-final-newline", {"final_newline": False})


def _is_adjacent_swap(p):
    d = [i for i, x in enumerate(p) if x != i]
    return len(d) == 2 and d[1] == d[0] + 1


def v3_text_deviations(M, sp, tier="quick"):
    """Single text-level deviations of the rendering of (M, sp): continuation splits at every interior
    position of every V30 line; blank runs at every gap."""
    for ln, (L, ntoks) in enumerate(v3000_content_lengths(M, sp)):
        for p in range(1, L):
            yield (f"split[{ln}]@{p}", {"splits": [(ln, p)]})
        for g in range(0, ntoks + 1):
            for run in ((2, 3) if 0 < g < ntoks else (1, 2)):
                if tier == "quick" and run == 3:
                    continue
                yield (f"blank[{ln}]@{g}x{run}", {"blanks": [(ln, g, run)]})


def conflict(kw1, kw2):
    for k in kw1:
        if k in kw2:
            if k in ("index_map", "bond_order", "header", "eol", "final_newline", "chiral", "empty_bond_block"):
                return True
            if k == "prop_order" and set(kw1[k]) & set(kw2[k]):
                return True
            if k == "star":
                b1 = set(kw1[k][0][1])
                b2 = set(kw2[k][0][1])
                if b1 & b2 or kw1[k][0][4] == kw2[k][0][4] or kw1[k][0][3] != kw2[k][0][3]:
                    return True
            if k == "aamap" and set(kw1[k]) & set(kw2[k]):
                return True
    # star + flip/bondkw/bondorder on folded bonds: flipping a folded bond is meaningless
    for a, b in ((kw1, kw2), (kw2, kw1)):
        if "star" in a:
            fb = set(a["star"][0][1])
            if any(j in fb for j in b.get("bond_flip", [])):
                return True
            if any(j in fb for (j, _, _) in b.get("extra_bond_kw", [])):
                return True
            if "index_map" in b and a["star"][0][4] in b["index_map"]:
                return True
            if "blocks" in b or "bond_order" in b:
                pass
    return False


# ---- non-identity data deviations (C06) ---------------------------------------------------------------
def data_deviations(M: Mol, tier="quick"):
    """Yields (label, M') where M' differs from M only in non-identity data."""
    coords = [0.0, 1.5, -1.5, 123.4567, 0.0001, -1234.5678, 12345.6789]
    for i in range(len(M.atoms)):
        for c in coords[1:]:
            for axis in range(3):
                m2 = M.copy()
                xyz = list(m2.atoms[i].xyz)
                xyz[axis] = c
                m2.atoms[i].xyz = tuple(xyz)
                yield (f"coord[{i}].{axis}={c}", m2)
        for chg in (-1, 1, 2, -15, 15):
            if chg != M.atoms[i].chg:
                m2 = M.copy()
                m2.atoms[i].chg = chg
                yield (f"chg[{i}]={chg}", m2)
        if M.atoms[i].chg:
            m2 = M.copy()
            m2.atoms[i].chg = 0
            yield (f"chg[{i}]=0", m2)
    for j in range(len(M.bonds)):
        for t in range(1, 11):
            if t != M.bonds[j][2]:
                m2 = M.copy()
                a, b, _ = m2.bonds[j]
                m2.bonds[j] = (a, b, t)
                yield (f"btype[{j}]={t}", m2)


def compare_graph(g, M: Mol, check_coords=True):
    """None if the networkx graph g equals the abstract molecule attribute for attribute, else description.
    Stored attributes are compared semantically (absent == 0), which is all the statement demands."""
    nodes = list(g.nodes)
    n = len(M.atoms)
    if nodes != list(range(n)):
        return f"nodes are {nodes}, expected 0..{n - 1} in file order"
    for i, a in enumerate(M.atoms):
        d = g.nodes[i]
        if d.get("element_symbol") != a.el:
            return f"atom {i}: element {d.get('element_symbol')!r} != {a.el!r}"
        if d.get("atomic_number") != Z[a.el]:
            return f"atom {i}: atomic number {d.get('atomic_number')} != {Z[a.el]}"
        for key, want in (("chg", a.chg), ("rad", a.rad), ("mass", a.mass)):
            got = d.get(key, 0) or 0
            if got != want:
                return f"atom {i} ({a.el}): {key} {got} != stated {want}"
        if check_coords:
            got = (d.get("x_coord"), d.get("y_coord"), d.get("z_coord"))
            if tuple(float(v) if v is not None else None for v in got) != tuple(float(v) for v in a.xyz):
                return f"atom {i}: coordinates {got} != {a.xyz}"
    want = {}
    for a, b, t in M.bonds:
        want[frozenset((a, b))] = t
    got = {}
    for a, b, d in g.edges(data=True):
        got[frozenset((a, b))] = d.get("bond_type")
    if want != got:
        return f"bonds {sorted((sorted(k), v) for k, v in got.items())} != stated {sorted((sorted(k), v) for k, v in want.items())}"
    return None


# ================================================================================================
# V2000
# ================================================================================================
CHG_CODE = {0: 0, 3: 1, 2: 2, 1: 3, -1: 5, -2: 6, -3: 7}  # charge -> atom-block code; 4 = doublet radical


def default_v2_spelling():
    return {
        "chg_via": "lines",       # 'lines' | 'codes'  (codes only if expressible)
        "rad_via": "lines",       # 'lines' | 'codes'
        "iso_via": "lines",       # 'lines' | 'symbols' (D/T) — per atom override in dt
        "dt": [],                 # H atoms with mass 2/3 written as D/T
        "stale_codes": {},        # atom i -> code written in the atom block although property lines supersede it
        "grouping": {},           # 'CHG'|'RAD'|'ISO' -> list of group sizes (composition of the entry list)
        "entry_order": {},        # key -> permutation of entries
        "line_order": None,       # order of property line kinds, e.g. ('ISO','CHG','RAD')
        "extra_lines": [],        # (slot, [lines])  unrelated property lines inserted at slot in the property block
        "atom_lists": 0,          # number of atom list lines (counts lll)
        "truncate_atoms": False,  # atom lines cut after ccc
        "short_bonds": False,     # bond lines cut after ttt
        "header": DEFAULT_HEADER,
        "eol": "\n",
        "final_newline": True,
        "zero_entries": [],       # (key, atom) explicit zero entries in property lines (value 0)
        "dd": {},                 # atom -> mass-difference field value (must be ignored / superseded)
    }


def v2000_text(M: Mol, sp: dict | None = None) -> str:
    sp = sp or default_v2_spelling()
    n = len(M.atoms)
    assert n <= 999 and len(M.bonds) <= 999
    lines = list(sp["header"])
    lines.append(f"{n:3d}{len(M.bonds):3d}{sp['atom_lists']:3d}  0  0  0  0  0  0  0999 V2000")
    any_chg = any(a.chg for a in M.atoms)
    any_rad = any(a.rad for a in M.atoms)
    chg_lines = sp["chg_via"] == "lines"
    rad_lines = sp["rad_via"] == "lines"
    # the spec: if any M CHG / M RAD line is present, ALL atom-block charge codes are superseded. So codes can
    # carry information only when neither CHG nor RAD lines are written.
    has_cr_lines = (chg_lines and (any_chg or any(k == "CHG" for k, _ in sp["zero_entries"]))) or \
                   (rad_lines and (any_rad or any(k == "RAD" for k, _ in sp["zero_entries"])))
    for i, a in enumerate(M.atoms):
        code = 0
        if not has_cr_lines:
            if a.chg and not chg_lines:
                code = CHG_CODE[a.chg]
            if a.rad and not rad_lines:
                assert a.rad == 2 and not a.chg
                code = 4
        else:
            code = sp["stale_codes"].get(i, 0)
        sym = a.el
        if i in sp["dt"]:
            assert a.el == "H" and a.mass in (2, 3)
            sym = "D" if a.mass == 2 else "T"
        x, y, z = a.xyz
        dd = sp["dd"].get(i, 0)
        l = f"{x:10.4f}{y:10.4f}{z:10.4f} {sym:<3}{dd:2d}{code:3d}"
        if not sp["truncate_atoms"]:
            l += "  0  0  0  0  0  0  0  0  0  0"
        lines.append(l)
    for a, b, t in M.bonds:
        l = f"{a + 1:3d}{b + 1:3d}{t:3d}"
        if not sp["short_bonds"]:
            l += "  0  0  0  0"
        lines.append(l)
    for k in range(sp["atom_lists"]):
        lines.append(f"{1:3d} F    2   7   8")
    # property entries
    entries = {"CHG": [], "RAD": [], "ISO": []}
    for i, a in enumerate(M.atoms):
        if a.chg and chg_lines:
            entries["CHG"].append((i + 1, a.chg))
        if a.rad and rad_lines:
            entries["RAD"].append((i + 1, a.rad))
        if a.mass and i not in sp["dt"]:
            entries["ISO"].append((i + 1, a.mass))
    for key, i in sp["zero_entries"]:
        entries[key].append((i + 1, 0))
    prop_lines = {}
    for key in entries:
        es = entries[key]
        if key in sp["entry_order"]:
            es = [es[k] for k in sp["entry_order"][key]]
        groups = sp["grouping"].get(key)
        if groups is None:
            groups = []
            r = len(es)
            while r > 0:
                groups.append(min(8, r))
                r -= 8
        assert sum(groups) == len(es) and all(1 <= g <= 8 for g in groups)
        out = []
        pos = 0
        for gsz in groups:
            chunk = es[pos:pos + gsz]
            pos += gsz
            out.append(f"M  {key}{gsz:3d}" + "".join(f" {a:3d} {v:3d}" for a, v in chunk))
        prop_lines[key] = out
    order = sp["line_order"] or ("CHG", "RAD", "ISO")
    block = []
    for key in order:
        block += [(key, l) for l in prop_lines[key]]
    block = [l for _, l in block]
    for slot, extra in sorted(sp["extra_lines"], key=lambda t: -t[0]):
        block[min(slot, len(block)):min(slot, len(block))] = extra
    lines += block
    lines.append("M  END")
    text = sp["eol"].join(lines)
    if sp["final_newline"]:
        text += sp["eol"]
    return text


UNRELATED_V2_LINES = [
    ["M  STY  1   1 SUP"],
    ["M  SAL   1  1   1"],
    ["M  RGP  1   1   1"],
    ["A    1", "Me"],
    ["G    1  1", "abbrev"],
    ["V    1 comment"],
    ["M  ALS   1  2 F C   N   "],
    ["M  SUB  1   1   2"],
    ["M  UNS  1   1   1"],
    ["M  RBC  1   1   2"],
    ["M  LIN  1   1   2   1   1"],
    ["S  SKP  1", "this line is skipped"],
]


def compositions(total, maxpart=8):
    """All compositions of `total` into parts of size 1..maxpart."""
    if total == 0:
        yield []
        return
    for first in range(1, min(maxpart, total) + 1):
        for rest in compositions(total - first, maxpart):
            yield [first] + rest
