"""Drivers for the E1 properties: C01, C02, C04, C12, C13 (C03/C05/C11 reuse the orbit strings)."""
from __future__ import annotations

from . import e1
from . import graphs as G
from .common import Report, pmap

E1_KEYS = ("C01", "C02", "C04", "C12", "C13")
RULES = {
    "C01": "states = all labelled coloured graphs of the listed spaces (every numbering of every molecule) "
           "plus bond listing/orientation variants; non-trivial = states whose refined partition has a "
           "non-singleton class (result depends on bliss + cosmetic relabelling)",
    "C02": "all pairs of isomorphism classes (orbit roots) in the listed spaces; non-trivial = classes that "
           "share colour multiset and sorted degree sequence with another class (near misses)",
    "C04": "canonical labelled graph signature equal across each full S_n orbit; non-trivial as C01",
    "C12": "every state rendered with unique x, charges and bond types; renaming bijection, attribute and bond "
           "carry-over, argument snapshots; all call histories of length<=3 on every orbit root; "
           "non-trivial = states with >=1 bond",
    "C13": "class vector transported through the known relabelling, own one-round refinement, brute-force "
           "automorphisms on roots; non-trivial = states needing >=2 refinement rounds",
}


def spaces_for(prop, tier):
    if tier == "thorough":
        sp = list(e1.THOROUGH_SPACES)
        if prop == "C12":
            sp = e1.QUICK_SPACES + [(4, e1.A7, None), (6, e1.A2, None)]
        return sp
    sp = list(e1.QUICK_SPACES)
    if prop == "C12":
        sp = [(1, e1.A7, None), (2, e1.A7, None), (3, e1.A7, None), (4, e1.A5, None),
              (5, e1.alphabet(G.C, G.CRAD), None), (6, e1.A1, None)]
    return sp


def describe_spaces(spaces):
    out = []
    for n, alph, maxdev in spaces:
        names = ["".join(str(x) for x in e1.COLOURS[c] if x is not None) for c in alph]
        out.append(f"n={n} over {{{','.join(names)}}}" + (f" with <={maxdev} non-base atoms" if maxdev is not None else ""))
    return out


def run(prop: str, tier: str) -> int:
    rep = Report(prop, tier)
    spaces = spaces_for(prop, tier)
    shards = e1.space_shards(spaces)
    props = frozenset([prop])
    opts = {"listing_d": 2 if tier == "thorough" else 1}
    by_string = {}
    groups = {}
    n_orbits = 0
    for shard, res in pmap(e1.run_shard, [(props, sh, opts) for sh in shards]):
        rep.add(states=res["states"], transitions=res["transitions"],
                traces_validated_against_impl=res["exec"] + res["hist_exec"])
        for key, case in res["vios"]:
            if key[:3] in E1_KEYS and not key.startswith(prop):
                continue
            rep.violation(f"{prop}|{key}" if not key.startswith(prop) else key, case)
        rep.add(derived_graph_descriptions_executed=res.get("derived_exec", 0))
        for s in res["samples"]:
            rep.sample(s)
        n_orbits += len(res["orbits"])
        if prop == "C01" or prop == "C04":
            rep.add(distinct_nontrivial=res["nontrivial"], listing_variants_executed=res["listing_exec"])
        elif prop == "C13":
            rep.add(distinct_nontrivial=res["multi_round"], roots_with_nontrivial_automorphisms=res["aut_roots"])
        elif prop == "C12":
            rep.add(histories_executed=res["hist_exec"])
            rep.add(distinct_nontrivial=sum(sz for st, _, sz, _ in res["orbits"] if st[1]))
        if prop == "C02":
            _, sh, _ = shard
            n = sh[0]
            for st0, s, size, nontriv in res["orbits"]:
                if s in by_string and by_string[s][1] != st0:
                    o = by_string[s]
                    rep.violation("C02|collision", {
                        "kind": "e1-collision", "n_a": o[0], "state_a": o[1], "n_b": n, "state_b": st0,
                        "tucan": s,
                        "summary": f"two non-isomorphic molecules share {s!r}: {_show(o[0], o[1])} vs {_show(n, st0)}"})
                else:
                    by_string[s] = (n, st0)
                deg = [0] * n
                for a, b in G.edges_of(n, st0[1]):
                    deg[a] += 1
                    deg[b] += 1
                groups.setdefault((n, tuple(sorted(st0[0])), tuple(sorted(deg))), []).append((st0, s))
    if prop == "C02":
        _wl_pairs_in_sequence(rep, groups)
    if prop in ("C01", "C02", "C04", "C13"):
        from . import zoo

        zoo.run_all(rep, prop, tier)
    rep.add(orbits=n_orbits, spaces=describe_spaces(spaces), rule=RULES[prop])
    if prop == "C02":
        rep.add(distinct_strings=len(by_string),
                distinct_nontrivial=sum(len(v) for v in groups.values() if len(v) > 1))
    rep.assumptions.append("orbit closure under adjacent transpositions is the isomorphism oracle; no library code in it")
    return rep.finish()


def _wl_equivalent(n, a, b):
    """True iff colour refinement (own implementation) cannot tell the two labelled coloured graphs apart."""
    from .ref import iso

    def adj(st):
        out = [[] for _ in range(n)]
        for i, j in G.edges_of(n, st[1]):
            out[i].append(j)
            out[j].append(i)
        return out
    col = [("c", c) for c in a[0]] + [("c", c) for c in b[0]]
    ad = adj(a) + [[w + n for w in x] for x in adj(b)]
    ref = iso._refine(col, ad)
    from collections import Counter
    return Counter(ref[:n]) == Counter(ref[n:])


def _seq_job(job):
    n, a, b = job
    sa = e1.pipeline(n, a)[2]
    sb = e1.pipeline(n, b)[2]
    return sa, sb


def _wl_pairs_in_sequence(rep, groups):
    """Non-isomorphic molecules that colour refinement cannot distinguish, canonicalized directly after each other in
    one process (both orders): the second must still get its own string (no state carried between molecules)."""
    jobs = []
    expect = {}
    for (n, ms, deg), members in groups.items():
        if len(members) < 2 or n < 2:
            continue
        for i in range(len(members)):
            for j in range(len(members)):
                if i != j and _wl_equivalent(n, members[i][0], members[j][0]):
                    jobs.append((n, members[i][0], members[j][0]))
                    expect[(n, members[j][0])] = members[j][1]
                    expect[(n, members[i][0])] = members[i][1]
    cnt = 0
    for job, (sa, sb) in pmap(_seq_job, jobs, chunksize=8):
        n, a, b = job
        cnt += 1
        rep.add(transitions=2, traces_validated_against_impl=2)
        if sb != expect[(n, b)] or sa != expect[(n, a)] or sa == sb:
            rep.violation("C02|wl-pair-in-sequence", {
                "kind": "e1-sequence", "n": n, "state_a": a, "state_b": b, "expect_b": expect[(n, b)],
                "summary": f"after canonicalizing {_show(n, a)} the WL-equivalent, non-isomorphic {_show(n, b)} gets {sb!r} "
                           f"(alone: {expect[(n, b)]!r}; first got {sa!r})"})
    rep.add(wl_equivalent_ordered_pairs_run_in_sequence=cnt)


def _show(n, st):
    return {"colours": [list(e1.COLOURS[c]) for c in st[0]], "bonds": G.edges_of(n, st[1])}
