"""Shared harness: paths, evidence, violations/replays, known findings, parallel map.

Every check runs the *real* TUCAN code from /repo's current working tree
(PYTHONPATH is forced, the import location is asserted).
"""
from __future__ import annotations

import hashlib
import json
import multiprocessing as mp
import os
import sys
import time
import traceback

VERIF = os.path.dirname(os.path.dirname(os.path.abspath(__file__)))
REPO = os.environ.get("TUCAN_REPO", "/repo")
GUARD = "TUCAN_VERIF"
# evidence/ and replays/ live under /verif unless redirected (used only when evaluating seeded changes in
# scratch trees, so that those runs never overwrite the evidence of the real tree)
OUT = os.environ.get("VERIF_OUT", VERIF)


def setup_paths() -> None:
    """Make `import tucan` resolve to REPO's working tree, nothing else."""
    if REPO in sys.path:
        sys.path.remove(REPO)
    sys.path.insert(0, REPO)
    if VERIF not in sys.path:
        sys.path.insert(1, VERIF)
    sys.dont_write_bytecode = True
    os.environ[GUARD] = "1"
    import tucan  # noqa

    loc = os.path.dirname(os.path.abspath(tucan.__file__))
    assert loc == os.path.join(os.path.abspath(REPO), "tucan"), (
        f"tucan imported from {loc}, expected {REPO}/tucan"
    )


def seed() -> int:
    try:
        return int(os.environ.get("VERIF_SEED", "0"))
    except ValueError:
        return 0


def ncpu() -> int:
    try:
        return int(os.environ.get("VERIF_JOBS", "0")) or min(16, os.cpu_count() or 1)
    except ValueError:
        return 16


def digest(obj) -> str:
    return hashlib.sha256(
        json.dumps(obj, sort_keys=True, default=str).encode()
    ).hexdigest()[:16]


# ----------------------------------------------------------------------------------------------
# known findings
# ----------------------------------------------------------------------------------------------
def load_known_findings() -> list[dict]:
    p = os.path.join(VERIF, "known_findings.json")
    if not os.path.exists(p):
        return []
    with open(p) as f:
        data = json.load(f)
    return [e for e in data.get("findings", []) if e.get("status") == "open"]


class Report:
    """Collects violations, known-finding hits, coverage counters; writes evidence and replays."""

    def __init__(self, prop: str, tier: str):
        self.prop = prop
        self.tier = tier
        self.t0 = time.time()
        self.violations: list[dict] = []
        self.known_hits: dict[str, int] = {}
        self.known = [k for k in load_known_findings() if k["property"] == prop]
        self.cov: dict = {
            "states": 0,
            "transitions": 0,
            "traces_validated_against_impl": 0,
            "evaluations": 0,
            "distinct_nontrivial": 0,
            "samples": [],
            "exhaustive": True,
        }
        self.assumptions: list[str] = []
        self._vio_keys: set[str] = set()
        self.max_violations = 25

    # -- coverage -------------------------------------------------------------------------------
    def add(self, **kw) -> None:
        for k, v in kw.items():
            if isinstance(v, (int, float)) and not isinstance(v, bool):
                self.cov[k] = self.cov.get(k, 0) + v
            else:
                self.cov[k] = v

    def sample(self, s, cap: int = 8) -> None:
        if len(self.cov["samples"]) < cap:
            self.cov["samples"].append(s)

    # -- violations -----------------------------------------------------------------------------
    def violation(self, key: str, case: dict) -> None:
        """key: canonical witness key (used for known-finding matching and de-duplication).
        case: JSON-able replay record; must contain 'kind'."""
        for k in self.known:
            if _key_matches(k["key"], key):
                self.known_hits[k["key"]] = self.known_hits.get(k["key"], 0) + 1
                return
        if key in self._vio_keys:
            # keep the smallest witness per key
            for i, old in enumerate(self.violations):
                if old["key"] == key and _size(case) < _size(old):
                    self.violations[i] = self._store(key, case)
            return
        self._vio_keys.add(key)
        if len(self.violations) >= self.max_violations:
            self.cov["violations_truncated"] = True
            return
        self.violations.append(self._store(key, case))

    def _store(self, key: str, case: dict) -> dict:
        rec = dict(case)
        rec["property"] = self.prop
        rec["key"] = key
        return rec

    def _write_replays(self) -> None:
        d = os.path.join(OUT, "replays", self.prop)
        for rec in self.violations:
            os.makedirs(d, exist_ok=True)
            path = os.path.join(d, digest(rec) + ".json")
            with open(path, "w") as f:
                json.dump(rec, f, indent=1, default=str)
            rec["_path"] = path

    # -- finish ---------------------------------------------------------------------------------
    def finish(self) -> int:
        wall = time.time() - self.t0
        for k in self.known:
            if k["key"] in self.known_hits:
                print(
                    f"KNOWN-FINDING: property={self.prop} {k['what']} "
                    f"(hits={self.known_hits[k['key']]})"
                )
        self._write_replays()
        for v in self.violations:
            print(f"VIOLATION property={self.prop} replay={v['_path']}")
            print("   ", v.get("summary", v["key"])[:400])
        cov = self.cov
        if not cov.get("evaluations"):
            cov["evaluations"] = cov.get("traces_validated_against_impl", 0)
        ev = {
            "property_id": self.prop,
            "tier": self.tier,
            "seed": seed(),
            "level": "model_checking",
            "coverage": cov,
            "assumptions": self.assumptions,
            "wall_s": round(wall, 2),
            "violations": len(self.violations),
            "known_findings_hit": self.known_hits,
        }
        os.makedirs(os.path.join(OUT, "evidence"), exist_ok=True)
        with open(os.path.join(OUT, "evidence", f"{self.prop}.json"), "w") as f:
            json.dump(ev, f, indent=1, default=str)
        print(
            f"[{self.prop} {self.tier}] states={cov['states']} transitions={cov['transitions']} "
            f"executions={cov['traces_validated_against_impl']} nontrivial={cov['distinct_nontrivial']} "
            f"exhaustive={cov['exhaustive']} violations={len(self.violations)} wall={wall:.1f}s"
        )
        return 1 if self.violations else 0


def _size(case: dict):
    n = case.get("n", case.get("n_b", 10**9))
    return (n if isinstance(n, int) else 10**9, len(json.dumps(case, default=str)))


def _key_matches(pattern: str, key: str) -> bool:
    if pattern.endswith("*"):
        return key.startswith(pattern[:-1])
    return pattern == key


# ----------------------------------------------------------------------------------------------
# parallel map over a deterministic shard list; long-lived workers
# ----------------------------------------------------------------------------------------------
def _init_worker():
    setup_paths()


SHARD_LIMIT_S = int(os.environ.get("VERIF_SHARD_LIMIT", "900"))


class ShardTimeout(BaseException):
    pass


def _alarm(signum, frame):
    raise ShardTimeout()


def _call(args):
    import signal

    fn, shard = args
    try:
        signal.signal(signal.SIGALRM, _alarm)
        signal.setitimer(signal.ITIMER_REAL, SHARD_LIMIT_S)
        try:
            return ("ok", shard, fn(shard))
        finally:
            signal.setitimer(signal.ITIMER_REAL, 0)
    except ShardTimeout:
        return ("err", shard, f"shard did not finish within {SHARD_LIMIT_S} s (an execution of the code under test does not "
                              f"terminate, or the machine is overloaded) - no verdict")
    except BaseException:  # a crash of the harness itself is a hard error, never a verdict
        return ("err", shard, traceback.format_exc())


def pmap(fn, shards: list, jobs: int | None = None, chunksize: int = 1):
    """Yield (shard, result) for every shard; order of completion. Harness errors abort."""
    shards = list(shards)
    s = seed()
    if s and len(shards) > 1:  # VERIF_SEED only rotates the order, never the set
        r = s % len(shards)
        shards = shards[r:] + shards[:r]
    jobs = jobs or ncpu()
    if jobs <= 1 or len(shards) <= 1:
        for sh in shards:
            st, shard, res = _call((fn, sh))
            if st == "err":
                raise RuntimeError(f"harness error in shard {shard!r}:\n{res}")
            yield shard, res
        return
    ctx = mp.get_context("fork")
    with ctx.Pool(jobs, initializer=_init_worker) as pool:
        for st, shard, res in pool.imap_unordered(
            _call, [(fn, sh) for sh in shards], chunksize=chunksize
        ):
            if st == "err":
                pool.terminate()
                raise RuntimeError(f"harness error in shard {shard!r}:\n{res}")
            yield shard, res
