"""Property id -> runner / replayer."""
from __future__ import annotations

import json

E1_PROPS = ("C01", "C02", "C04", "C12", "C13")


def run(prop: str, tier: str) -> int:
    from . import common

    if tier == "thorough" and "VERIF_SHARD_LIMIT" not in __import__("os").environ:
        common.SHARD_LIMIT_S = 6 * 3600  # thorough shards (n = 7, one label) legitimately run for up to an hour
    if prop in E1_PROPS:
        from . import props_e1

        return props_e1.run(prop, tier)
    if prop in ("C03", "C05", "C11"):
        from . import props_strings

        return props_strings.run(prop, tier)
    if prop in ("C06", "C07", "C08"):
        from . import props_e2

        return getattr(props_e2, "run_" + prop.lower())(tier)
    if prop == "C09":
        from . import props_c09

        return props_c09.run(tier)
    if prop == "C15":
        from . import props_c15

        return props_c15.run(tier)
    if prop == "C16":
        from . import props_c16

        return props_c16.run(tier)
    if prop == "C14":
        from . import props_c14

        return props_c14.run(tier)
    if prop == "C10":
        from . import props_e3

        return props_e3.run_c10(tier)
    raise SystemExit(f"unknown property {prop}")


def replay(prop: str, path: str) -> int:
    from . import replay as R

    with open(path) as f:
        rec = json.load(f)
    return R.replay(prop, rec, path)
