"""Own coloured-graph isomorphism test (colour refinement + individualisation/backtracking).
Used above the E1 fixpoint bound, where orbit tables are not available. No networkx/igraph/TUCAN code."""
from __future__ import annotations


def _refine(col, adj):
    """Colour refinement to a fixpoint on the (disjoint union) graph. col: list of hashable."""
    n = len(col)
    # normalise to ints
    ids = {c: i for i, c in enumerate(sorted(set(col), key=repr))}
    col = [ids[c] for c in col]
    ncls = len(ids)
    while True:
        sig = [(col[v], tuple(sorted(col[w] for w in adj[v]))) for v in range(n)]
        ids = {s: i for i, s in enumerate(sorted(set(sig)))}
        new = [ids[s] for s in sig]
        if len(ids) == ncls:
            return new
        col, ncls = new, len(ids)


def isomorphic(col1, adj1, col2, adj2) -> bool:
    """col: list of atom colours; adj: list of neighbour lists."""
    n = len(col1)
    if n != len(col2):
        return False
    if sorted(map(repr, col1)) != sorted(map(repr, col2)):
        return False
    if sum(map(len, adj1)) != sum(map(len, adj2)):
        return False
    adj = [list(a) for a in adj1] + [[w + n for w in a] for a in adj2]
    col = [("c", repr(c)) for c in col1] + [("c", repr(c)) for c in col2]
    return _search(_refine(col, adj), adj, n)


def _search(col, adj, n) -> bool:
    classes = {}
    for v, c in enumerate(col):
        classes.setdefault(c, ([], []))[0 if v < n else 1].append(v)
    target = None
    for c, (a, b) in classes.items():
        if len(a) != len(b):
            return False
        if len(a) > 1 and (target is None or len(a) < len(classes[target][0])):
            target = c
    if target is None:
        # discrete: check the induced mapping
        m = {}
        for c, (a, b) in classes.items():
            m[a[0]] = b[0]
        for v in range(n):
            if sorted(m[w] for w in adj[v]) != sorted(adj[m[v]]):
                return False
        return True
    a, b = classes[target]
    v = a[0]
    fresh = max(col) + 1
    for w in b:
        c2 = list(col)
        c2[v] = fresh
        c2[w] = fresh
        if _search(_refine(c2, adj), adj, n):
            return True
    return False
