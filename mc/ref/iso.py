"""Own coloured-graph isomorphism test (colour refinement + individualisation/backtracking).
Used above the E1 fixpoint bound, where orbit tables are not available. No networkx/igraph/TUCAN code."""
from __future__ import annotations


def _refine(col, adj):
    """Colour refinement to a fixpoint on the (disjoint union) graph. col: list of hashable."""
    n = len(col)
    # normalise to ints
    ids = {c: i for i, c in enumerate(sorted(set(col), key=repr))}
    col = [ids[c] for c in col]
    ncls = len(ids)
    while True:
        sig = [(col[v], tuple(sorted(col[w] for w in adj[v]))) for v in range(n)]
        ids = {s: i for i, s in enumerate(sorted(set(sig)))}
        new = [ids[s] for s in sig]
        if len(ids) == ncls:
            return new
        col, ncls = new, len(ids)


def isomorphic(col1, adj1, col2, adj2) -> bool:
    """col: list of atom colours; adj: list of neighbour lists."""
    n = len(col1)
    if n != len(col2):
        return False
    if sorted(map(repr, col1)) != sorted(map(repr, col2)):
        return False
    if sum(map(len, adj1)) != sum(map(len, adj2)):
        return False
    adj = [list(a) for a in adj1] + [[w + n for w in a] for a in adj2]
    col = [("c", repr(c)) for c in col1] + [("c", repr(c)) for c in col2]
    return _search(_refine(col, adj), adj, n)


def _search(col, adj, n) -> bool:
    """Individualisation/refinement search, iterative (depth = number of individualised pairs, which reaches the
    number of atoms for e.g. 1000 identical isolated atoms)."""
    stack = [(col, None, None)]  # (colouring, iterator over candidate images or None, vertex)
    while stack:
        col, cands, v = stack[-1]
        if cands is None:
            classes = {}
            for u, c in enumerate(col):
                classes.setdefault(c, ([], []))[0 if u < n else 1].append(u)
            target = None
            balanced = True
            for c, (a, b) in classes.items():
                if len(a) != len(b):
                    balanced = False
                    break
                if len(a) > 1 and (target is None or len(a) < len(classes[target][0])):
                    target = c
            if not balanced:
                stack.pop()
                continue
            if target is None:
                m = {a[0]: b[0] for a, b in classes.values()}
                if all(sorted(m[w] for w in adj[u]) == sorted(adj[m[u]]) for u in range(n)):
                    return True
                stack.pop()
                continue
            a, b = classes[target]
            stack[-1] = (col, iter(b), a[0])
            continue
        w = next(cands, None)
        if w is None:
            stack.pop()
            continue
        fresh = max(col) + 1
        c2 = list(col)
        c2[v] = fresh
        c2[w] = fresh
        stack.append((_refine(c2, adj), None, None))
    return False
