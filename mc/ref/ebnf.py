"""Scannerless interpreter for the W3C-style EBNF in tucan/parser/tucan.ebnf.

Reads the grammar text at run time (from the working tree), builds an expression tree and computes,
for a string s, the set of end positions reachable from a start position for any rule. No ANTLR, no
TUCAN code. Supports: "literal", [a-z] classes, ( ), |, juxtaposition, postfix ? * +.
"""
from __future__ import annotations

import re

_TOK = re.compile(r'\s*(?:("(?:[^"]*)")|(\'(?:[^\']*)\')|(\[[^\]]*\])|([A-Za-z_][A-Za-z_0-9]*)|(::=)|([()|?*+]))')


def parse_grammar(text: str) -> dict:
    # join continuation lines: a rule starts with  name ::=
    rules_src = []
    for line in text.splitlines():
        if not line.strip():
            continue
        if re.match(r"\s*[A-Za-z_][A-Za-z_0-9]*\s*::=", line):
            rules_src.append(line)
        else:
            rules_src[-1] += " " + line
    rules = {}
    for src in rules_src:
        name, rhs = src.split("::=", 1)
        toks = _tokenize(rhs)
        expr, pos = _alt(toks, 0)
        if pos != len(toks):
            raise ValueError(f"trailing tokens in rule {name.strip()}: {toks[pos:]}")
        rules[name.strip()] = expr
    return rules


def _tokenize(s):
    out = []
    pos = 0
    s = s.rstrip()
    while pos < len(s):
        m = _TOK.match(s, pos)
        if not m:
            raise ValueError(f"cannot tokenize EBNF at {s[pos:pos + 20]!r}")
        pos = m.end()
        if m.group(1) is not None:
            out.append(("lit", m.group(1)[1:-1]))
        elif m.group(2) is not None:
            out.append(("lit", m.group(2)[1:-1]))
        elif m.group(3) is not None:
            out.append(("cls", _charclass(m.group(3)[1:-1])))
        elif m.group(4) is not None:
            out.append(("ref", m.group(4)))
        elif m.group(6) is not None:
            out.append(("op", m.group(6)))
        else:
            raise ValueError("unexpected ::=")
    return out


def _charclass(body):
    chars = set()
    i = 0
    while i < len(body):
        if i + 2 < len(body) and body[i + 1] == "-":
            for c in range(ord(body[i]), ord(body[i + 2]) + 1):
                chars.add(chr(c))
            i += 3
        else:
            chars.add(body[i])
            i += 1
    return frozenset(chars)


def _alt(toks, pos):
    alts = []
    seq, pos = _seq(toks, pos)
    alts.append(seq)
    while pos < len(toks) and toks[pos] == ("op", "|"):
        seq, pos = _seq(toks, pos + 1)
        alts.append(seq)
    return (("alt", alts) if len(alts) > 1 else alts[0]), pos


def _seq(toks, pos):
    items = []
    while pos < len(toks) and toks[pos] not in (("op", "|"), ("op", ")")):
        t = toks[pos]
        if t == ("op", "("):
            e, pos = _alt(toks, pos + 1)
            if pos >= len(toks) or toks[pos] != ("op", ")"):
                raise ValueError("missing )")
            pos += 1
        elif t[0] in ("lit", "cls", "ref"):
            e = t
            pos += 1
        else:
            raise ValueError(f"unexpected {t}")
        while pos < len(toks) and toks[pos][0] == "op" and toks[pos][1] in "?*+":
            e = (toks[pos][1], e)
            pos += 1
        items.append(e)
    return ("seq", items), pos


class Recognizer:
    def __init__(self, grammar_text: str, start: str = "tucan"):
        self.rules = parse_grammar(grammar_text)
        self.start = start
        for e in self.rules.values():
            self._check_refs(e)
        self._regex = None
        try:
            self._regex = re.compile(self._to_regex(("ref", self.start), ()))
        except RecursionError:
            self._regex = None  # recursive grammar: interpreter only

    def _check_refs(self, e):
        k = e[0]
        if k == "ref":
            if e[1] not in self.rules:
                raise ValueError(f"undefined rule {e[1]}")
        elif k in ("seq", "alt"):
            for x in e[1]:
                self._check_refs(x)
        elif k in "?*+":
            self._check_refs(e[1])


    def _to_regex(self, e, stack) -> str:
        """Mechanical translation to a Python regex; only valid for non-recursive grammars (checked).
        Python's backtracking matcher is exhaustive, so fullmatch == language membership."""
        k = e[0]
        if k == "lit":
            return re.escape(e[1])
        if k == "cls":
            return "[" + "".join(re.escape(c) for c in sorted(e[1])) + "]"
        if k == "ref":
            if e[1] in stack:
                raise RecursionError(e[1])
            return "(?:" + self._to_regex(self.rules[e[1]], stack + (e[1],)) + ")"
        if k == "seq":
            return "".join(self._to_regex(x, stack) for x in e[1])
        if k == "alt":
            return "(?:" + "|".join(self._to_regex(x, stack) for x in e[1]) + ")"
        if k in "?*+":
            return "(?:" + self._to_regex(e[1], stack) + ")" + k
        raise ValueError(k)

    def accepts(self, s: str) -> bool:
        if self._regex is not None:
            return self._regex.fullmatch(s) is not None
        return self.accepts_slow(s)

    def accepts_slow(self, s: str) -> bool:
        self._s = s
        self._memo = {}
        return len(s) in self._ends(("ref", self.start), 0)

    def _ends(self, e, pos):
        k = e[0]
        s = self._s
        if k == "lit":
            return {pos + len(e[1])} if s.startswith(e[1], pos) else set()
        if k == "cls":
            return {pos + 1} if pos < len(s) and s[pos] in e[1] else set()
        if k == "ref":
            key = (e[1], pos)
            r = self._memo.get(key)
            if r is None:
                self._memo[key] = set()  # left recursion guard
                r = self._ends(self.rules[e[1]], pos)
                self._memo[key] = r
            return r
        if k == "seq":
            cur = {pos}
            for item in e[1]:
                nxt = set()
                for p in cur:
                    nxt |= self._ends(item, p)
                cur = nxt
                if not cur:
                    break
            return cur
        if k == "alt":
            out = set()
            for a in e[1]:
                out |= self._ends(a, pos)
            return out
        if k == "?":
            return {pos} | self._ends(e[1], pos)
        if k in "*+":
            out = set() if k == "+" else {pos}
            frontier = {pos}
            first = True
            while frontier:
                nxt = set()
                for p in frontier:
                    nxt |= self._ends(e[1], p)
                nxt -= out
                if first and k == "+":
                    pass
                out |= nxt
                frontier = {p for p in nxt}
                first = False
            return out
        raise ValueError(k)
