"""Reference reader for TUCAN strings: grammar membership from the published EBNF (ebnf.py), semantics
written from the property statement (C10). Shares no code with the library."""
from __future__ import annotations

import os
import re

from .ebnf import Recognizer
from .periodic import Z

_REC = None


def recognizer(repo: str) -> Recognizer:
    global _REC
    if _REC is None:
        with open(os.path.join(repo, "tucan", "parser", "tucan.ebnf")) as f:
            _REC = Recognizer(f.read(), "tucan")
    return _REC


_ELEM = re.compile(r"([A-Z][a-z]?)([0-9]*)")
_TUP = re.compile(r"\(([0-9]+)-([0-9]+)\)")
_ATT = re.compile(r"\(([0-9]+):([^)]*)\)")


HUGE = 10 ** 18


def _num(ds: str):
    """Digit string -> int without tripping CPython's 4300-digit conversion limit (the reference must not
    change interpreter-wide settings: the implementation runs in the same process)."""
    return int(ds) if len(ds) <= 18 else HUGE


def read(s: str, repo: str):
    """Returns ('accept', atoms, bonds, attrs) or ('reject', reason).
    atoms: list of element symbols by index (0-based), bonds: set of frozensets, attrs: {idx: {key: val}}"""
    if not recognizer(repo).accepts(s):
        return ("reject", "not a sentence of the EBNF")
    parts = s.split("/")
    formula, tuples = parts[0], parts[1]
    attrs_s = parts[2] if len(parts) > 2 else ""
    atoms = []
    for sym, cnt in _ELEM.findall(formula):
        c = _num(cnt) if cnt else 1
        if c > 10 ** 6 or len(atoms) + c > 10 ** 6:
            return ("skip", "atom count beyond any buildable molecule (resource exhaustion is out of scope)")
        atoms.extend([sym] * c)
    order = sorted(range(len(atoms)), key=lambda i: Z[atoms[i]])  # stable
    atoms = [atoms[i] for i in order]
    n = len(atoms)
    bonds = set()
    for a, b in _TUP.findall(tuples):
        a, b = _num(a), _num(b)
        if a == b:
            return ("reject", f"self bond {a}")
        if a > n or b > n:
            return ("reject", f"bond index out of range {a}-{b}")
        bonds.add(frozenset((a - 1, b - 1)))
    attrs = {}
    for idx, body in _ATT.findall(attrs_s):
        idx = _num(idx)
        if idx > n:
            return ("reject", f"attribute index out of range {idx}")
        d = attrs.setdefault(idx - 1, {})
        for kv in body.split(","):
            k, v = kv.split("=")
            if k in d:
                return ("reject", f"attribute {k} twice on atom {idx}")
            d[k] = _num(v) if len(v) <= 18 else v
    return ("accept", atoms, bonds, attrs)


def observe_impl(s: str):
    """Run the real parser; normalise its result to the same shape."""
    from tucan.parser.parser import TucanParserException, graph_from_tucan

    try:
        g = graph_from_tucan(s)
    except TucanParserException as ex:
        return ("reject", "TucanParserException")
    except BaseException as ex:  # noqa
        return ("crash", type(ex).__name__, str(ex)[:200])
    nodes = list(g.nodes)
    if nodes != list(range(len(nodes))):
        return ("badgraph", f"nodes {nodes[:20]}")
    atoms = [g.nodes[i].get("element_symbol") for i in nodes]
    zs = [g.nodes[i].get("atomic_number") for i in nodes]
    bonds = set(frozenset(e) for e in g.edges())
    if len(bonds) != g.number_of_edges():
        return ("badgraph", "parallel edges")
    attrs = {}
    for i in nodes:
        d = {}
        for k in ("mass", "rad"):
            if k in g.nodes[i]:
                d[k] = g.nodes[i][k]
        extra = set(g.nodes[i]) - {"element_symbol", "atomic_number", "partition", "invariant_code", "mass", "rad"}
        if extra:
            d["_extra"] = sorted(extra)
        if d:
            attrs[i] = d
    return ("accept", atoms, bonds, attrs, zs)


def compare(s: str, repo: str):
    """None if implementation and reference agree on s, else a description."""
    ref = read(s, repo)
    imp = observe_impl(s)
    if imp[0] == "crash":
        return f"rejected with unrelated error {imp[1]}: {imp[2]}" if ref[0] == "reject" else \
            f"valid sentence crashes with {imp[1]}: {imp[2]}"
    if ref[0] == "skip":
        return None
    if imp[0] == "badgraph":
        return f"malformed graph returned: {imp[1]}"
    if ref[0] != imp[0]:
        return f"reference says {ref[0]} ({ref[1] if ref[0] == 'reject' else 'valid'}), parser says {imp[0]}"
    if ref[0] == "reject":
        return None
    _, atoms, bonds, attrs = ref
    _, iatoms, ibonds, iattrs, zs = imp
    if atoms != iatoms:
        return f"atoms differ: reference {atoms} vs parser {iatoms}"
    if [Z[a] for a in atoms] != zs:
        return f"atomic numbers differ: {zs}"
    if bonds != ibonds:
        return f"bonds differ: reference {sorted(map(sorted, bonds))} vs parser {sorted(map(sorted, ibonds))}"
    if attrs != iattrs:
        return f"attributes differ: reference {attrs} vs parser {iattrs}"
    return None
