"""Own periodic table (written from memory of the IUPAC table, not from tucan/element_attributes.py)."""
SYMBOLS = (
    "H He Li Be B C N O F Ne Na Mg Al Si P S Cl Ar K Ca Sc Ti V Cr Mn Fe Co Ni Cu Zn Ga Ge As Se Br Kr "
    "Rb Sr Y Zr Nb Mo Tc Ru Rh Pd Ag Cd In Sn Sb Te I Xe Cs Ba La Ce Pr Nd Pm Sm Eu Gd Tb Dy Ho Er Tm Yb Lu "
    "Hf Ta W Re Os Ir Pt Au Hg Tl Pb Bi Po At Rn Fr Ra Ac Th Pa U Np Pu Am Cm Bk Cf Es Fm Md No Lr "
    "Rf Db Sg Bh Hs Mt Ds Rg Cn Nh Fl Mc Lv Ts Og"
).split()
assert len(SYMBOLS) == 118 and len(set(SYMBOLS)) == 118
Z = {s: i + 1 for i, s in enumerate(SYMBOLS)}


def hill_order(symbols):
    """Hill system: with carbon -> C, H, then alphabetical; without carbon -> all alphabetical."""
    syms = sorted(set(symbols))
    if "C" in syms:
        rest = [s for s in syms if s not in ("C", "H")]
        return ["C"] + (["H"] if "H" in syms else []) + rest
    return syms
