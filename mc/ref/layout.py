"""C05 layout validator, written from the property statement. Shares no code with the library.

validate(s, atoms) where atoms = list of (element, mass|None, rad|None) and bonds = list of (i, j) over atom
positions: returns None or a description of the first rule broken."""
from __future__ import annotations

import re
from collections import Counter

from .periodic import Z, hill_order

_ELEM = re.compile(r"([A-Z][a-z]?)([0-9]*)")
_TUP = re.compile(r"\(([0-9]+)-([0-9]+)\)")
_ATT = re.compile(r"\(([0-9]+):([^)]*)\)")


def validate(s: str, atoms, bonds, recognizer):
    if not recognizer.accepts(s):
        return "not a sentence of the published grammar"
    parts = s.split("/")
    if len(parts) not in (2, 3):
        return "wrong number of sections"
    formula, tuples = parts[0], parts[1]
    attrs = parts[2] if len(parts) == 3 else None
    if attrs == "":
        return "empty attribute section emitted"
    # -- formula: Hill order, counts equal the molecule's, 1 omitted
    terms = _ELEM.findall(formula)
    if "".join(a + b for a, b in terms) != formula:
        return "formula not made of element terms"
    counts = Counter(a[0] for a in atoms)
    syms = [t[0] for t in terms]
    if syms != hill_order(counts):
        return f"formula order {syms} is not Hill order {hill_order(counts)}"
    for sym, c in terms:
        if (int(c) if c else 1) != counts[sym]:
            return f"formula count of {sym} is {c or 1}, molecule has {counts[sym]}"
        if c in ("1", "0") or c.startswith("0"):
            return f"count {c!r} written"
    # -- index blocks by increasing atomic number
    n = len(atoms)
    elem_of_index = {}
    i = 1
    for sym in sorted(counts, key=lambda x: Z[x]):
        for _ in range(counts[sym]):
            elem_of_index[i] = sym
            i += 1
    # -- tuples
    tl = [(int(a), int(b)) for a, b in _TUP.findall(tuples)]
    if "".join(f"({a}-{b})" for a, b in tl) != tuples:
        return "tuple section not made of canonical (a-b) tuples"
    for a, b in tl:
        if not (1 <= a < b <= n):
            return f"tuple ({a}-{b}) violates 1<=a<b<=n"
    if any(x >= y for x, y in zip(tl, tl[1:])):
        return "tuples not strictly ascending (or a bond listed twice)"
    if len(tl) != len(bonds):
        return f"{len(tl)} tuples for {len(bonds)} bonds"
    want = Counter(frozenset_pair(atoms[i][0], atoms[j][0]) for i, j in bonds)
    got = Counter(frozenset_pair(elem_of_index[a], elem_of_index[b]) for a, b in tl)
    if want != got:
        return f"bond element pairs {dict(got)} do not match the molecule's {dict(want)} (index blocks wrong?)"
    # -- attribute blocks
    labelled = Counter((a[0], a[1] or 0, a[2] or 0) for a in atoms if (a[1] or a[2]))
    if attrs is None:
        if labelled:
            return "labelled atoms but no attribute section"
        return None
    blocks = _ATT.findall(attrs)
    if "".join(f"({i}:{b})" for i, b in blocks) != attrs:
        return "attribute section not made of blocks"
    idxs = [int(i) for i, _ in blocks]
    if any(x >= y for x, y in zip(idxs, idxs[1:])):
        return "attribute blocks not in strictly ascending index order (or an atom has two blocks)"
    got = Counter()
    for i, body in blocks:
        i = int(i)
        if not 1 <= i <= n:
            return f"attribute index {i} out of 1..{n}"
        d = {}
        for kv in body.split(","):
            k, v = kv.split("=")
            if k in d:
                return f"{k} twice"
            if int(v) < 1 or v.startswith("0"):
                return f"attribute value {v} is not strictly positive"
            d[k] = int(v)
        got[(elem_of_index[i], d.get("mass", 0), d.get("rad", 0))] += 1
    if got != labelled:
        return f"attribute blocks {dict(got)} do not match the molecule's labels {dict(labelled)}"
    return None


def frozenset_pair(a, b):
    return (a, b) if a <= b else (b, a)
