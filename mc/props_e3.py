"""E3 drivers: C10 (parser == reference reader on exhaustive string spaces)."""
from __future__ import annotations

from . import sentences as S
from .common import REPO, Report, pmap


def _c10_chunk(job):
    from .ref import tucan_ref as T

    strings = job
    out = {"n": 0, "accepted": 0, "past_formula": 0, "vios": [], "boundary": 0}
    for s in strings:
        out["n"] += 1
        r = T.compare(s, REPO)
        ref = T.read(s, REPO)
        if ref[0] == "accept":
            out["accepted"] += 1
            if r is None:
                # the caller owns the returned graph: scribble on it, parse again, must still be the denoted graph
                try:
                    from tucan.parser.parser import graph_from_tucan
                    from .c14_workload import scribble

                    scribble(graph_from_tucan(s))
                    r = T.compare(s, REPO)
                    if r is not None:
                        r = "after the caller modified an earlier result for the same string: " + r
                except Exception as ex:  # noqa
                    r = f"second parse raised {type(ex).__name__}"
        if "/" in s:
            out["past_formula"] += 1
        if r is not None:
            out["vios"].append((s, r))
    return out


def _vio_key(s, msg):
    if len(s) > 4000 and "ValueError" in msg and "4300 digits" in msg:
        return "C10|token:digits>4300"
    if "unrelated error" in msg or "crashes" in msg:
        return "C10|crash|" + msg.split(":")[0][-40:]
    if msg.startswith("after the caller modified"):
        return "C10|aliased-result"
    if msg.startswith("reference says accept"):
        return "C10|valid-rejected"
    if msg.startswith("reference says reject"):
        return "C10|invalid-accepted"
    return "C10|graph|" + msg.split(":")[0]


def run_c10(tier: str) -> int:
    rep = Report("C10", tier)
    L = 4 if tier == "quick" else 5
    spaces = {}
    allstr = set()

    def add(name, gen):
        before = len(allstr)
        cnt = 0
        for s in gen:
            cnt += 1
            allstr.add(s)
        spaces[name] = {"generated": cnt, "new_distinct": len(allstr) - before}

    add(f"token-strings<= {L} over 17 tokens", S.all_token_strings(L))
    add("sentence-family", ("".join(t) for t in S.family_sentences(tier)))
    add("formula-family", S.formula_family_strings())
    alph = S.edit_alphabet(tier)
    bases = S.base_sentences(tier)
    add(f"single-edit neighbourhood of {len(bases)} sentences, alphabet {len(alph)}",
        ("".join(e) for b in bases for e in S.single_edits(b, alph)))
    if tier == "thorough":
        small = bases[:4]
        alph2 = S.PUNCT + ["1", "2", "10", "C", "H", "mass", "rad", " ", "0"]
        add("double-edit neighbourhood of 4 sentences, alphabet 16",
            ("".join(e2) for b in small for e in S.single_edits(b, alph2) for e2 in S.single_edits(e, alph2)))
    strings = sorted(allstr)
    chunks = [strings[i:i + 3000] for i in range(0, len(strings), 3000)]
    tot = {"n": 0, "accepted": 0, "past_formula": 0}
    for _, res in pmap(_c10_chunk, chunks):
        for k in tot:
            tot[k] += res[k]
        for s, msg in res["vios"]:
            rep.violation(_vio_key(s, msg), {
                "kind": "c10-string", "string": s if len(s) < 300 else None,
                "string_repr": (s[:80] + f"...<{len(s)} chars>") if len(s) > 300 else s,
                "long_token": len(s) > 4000, "n": len(s),
                "summary": f"{(s[:80] + '...') if len(s) > 80 else s!r}: {msg}"})
    rep.add(states=tot["n"], transitions=tot["n"], traces_validated_against_impl=tot["n"],
            evaluations=tot["n"], accepted=tot["accepted"], rejected=tot["n"] - tot["accepted"],
            distinct_nontrivial=tot["past_formula"], spaces=spaces,
            rule="every distinct string of the listed spaces is run through graph_from_tucan and the reference "
                 "reader (regex compiled from tucan.ebnf + semantics); states = distinct strings; non-trivial = "
                 "strings containing '/' (lexer and grammar exercised past the formula)")
    for s in strings[:: max(1, len(strings) // 6)][:6]:
        rep.sample(s if len(s) < 200 else s[:60] + "...")
    rep.assumptions += ["reference reader: mechanical regex translation of tucan.ebnf (cross-checked against the "
                        "set-of-end-positions interpreter at start-up) + semantics from the statement",
                        "Python's re backtracking is exhaustive (fullmatch == membership)"]
    _selftest(rep)
    return rep.finish()


def _selftest(rep):
    from .ref import tucan_ref as T

    R = T.recognizer(REPO)
    n = 0
    for s in S.all_token_strings(3):
        assert R.accepts(s) == R.accepts_slow(s), s
        n += 1
    for b in S.base_sentences("quick"):
        s = "".join(b)
        assert R.accepts(s) and R.accepts_slow(s), s
        n += 1
    rep.add(reference_selftest_strings=n)


def replay_c10(prop, rec):
    from .ref import tucan_ref as T

    s = rec.get("string")
    if s is None and rec.get("long_token"):
        s = "C/(1-" + S.BIGNUM + ")"
    r = T.compare(s, REPO)
    return r is not None, f"{s[:100]!r}: {r}"
