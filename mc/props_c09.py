"""C09 — written molfiles are well-formed (<= 80 chars incl. newline) and read back as the same molecule.
The library is the renderer; the choice points are the attribute values that move every token across the wrap
boundary. Exhaustive sweep of line lengths / wrap alignments."""
from __future__ import annotations

from . import e1
from . import graphs as G
from .common import Report, pmap
from .ref.periodic import Z


def build_graph(atoms, bonds, labels=None):
    """atoms: list of dict(el, x, y, z, chg, rad, mass); bonds: list of (i, j, type|None) over positions."""
    import networkx as nx

    g = nx.Graph()
    labels = labels or list(range(len(atoms)))
    for lab, a in zip(labels, atoms):
        d = {"element_symbol": a["el"], "atomic_number": Z[a["el"]], "partition": 0}
        if not a.get("partial"):
            d.update({"x_coord": a.get("x", 0), "y_coord": a.get("y", 0), "z_coord": a.get("z", 0)})
        else:  # only the coordinates that are given (a 2D layout, a partly placed molecule)
            for k in ("x", "y", "z"):
                if k in a:
                    d[k + "_coord"] = a[k]
        for k in ("chg", "rad", "mass"):
            if a.get(k):
                d[k] = a[k]
        g.add_node(lab, **d)
    for i, j, t in bonds:
        if t is None:
            g.add_edge(labels[i], labels[j])
        else:
            g.add_edge(labels[i], labels[j], bond_type=t)
    return g


# -- own minimal V3000 reader for the writer's dialect (independent well-formedness oracle) ---------------
def own_read(text):
    lines = text.split("\n")
    if len(lines) < 6:
        raise ValueError("too few lines")
    if not lines[3].endswith("V3000"):
        raise ValueError("version line does not say V3000")
    if lines[-1] != "M  END":
        raise ValueError("last line is not M  END")
    logical = []
    cur = None
    for k, l in enumerate(lines[4:-1]):
        if not l.startswith("M  V30 "):
            raise ValueError(f"CTAB line {k + 5} lacks the M  V30 prefix: {l!r}")
        body = l[7:]
        cur = body if cur is None else cur + body
        if cur.endswith("-"):
            cur = cur[:-1]
            continue
        logical.append(cur)
        cur = None
    if cur is not None:
        raise ValueError("dangling continuation")
    toks = [l.split() for l in logical]
    if toks[0] != ["BEGIN", "CTAB"] or toks[-1] != ["END", "CTAB"]:
        raise ValueError("no BEGIN/END CTAB")
    if toks[1][0] != "COUNTS":
        raise ValueError("no COUNTS")
    na, nb = int(toks[1][1]), int(toks[1][2])
    if toks[2] != ["BEGIN", "ATOM"] or toks[3 + na] != ["END", "ATOM"]:
        raise ValueError("atom block malformed")
    atoms = []
    for t in toks[3:3 + na]:
        d = {"idx": int(t[0]), "el": t[1], "x": float(t[2]), "y": float(t[3]), "z": float(t[4]), "chg": 0, "rad": 0, "mass": 0}
        for kv in t[6:]:
            k, v = kv.split("=")
            if k not in ("CHG", "RAD", "MASS"):
                raise ValueError(f"unexpected keyword {kv}")
            d[k.lower()] = int(v)
        atoms.append(d)
    bonds = []
    p = 4 + na
    if nb:
        if toks[p] != ["BEGIN", "BOND"] or toks[p + 1 + nb] != ["END", "BOND"]:
            raise ValueError("bond block malformed")
        for t in toks[p + 1:p + 1 + nb]:
            if len(t) != 4:
                raise ValueError(f"bond line {t}")
            bonds.append((int(t[2]), int(t[3]), int(t[1])))
        p += nb + 2
    if p != len(toks) - 1:
        raise ValueError("unexpected lines after the bond block")
    return atoms, bonds


def check_written(g, atoms, bonds, labels):
    """Returns (error or None, info)."""
    from tucan.io import graph_from_molfile_text, graph_to_molfile

    text = graph_to_molfile(g)
    lines = text.split("\n")
    info = {"wrapped": 0, "max_len": max(len(l) for l in lines), "align": set()}
    if len(lines) < 4 or not lines[3].rstrip().endswith("V3000"):
        return "header is not 4 lines ending in the V3000 version line", info, text
    for k, l in enumerate(lines):
        if len(l) > 79:
            return f"line {k + 1} has {len(l)} characters (+ newline > 80)", info, text
        if "\r" in l:
            return "carriage return in output", info, text
        if k >= 4 and l.endswith("-") and l.startswith("M  V30 "):
            info["wrapped"] += 1
    try:
        oa, ob = own_read(text)
    except Exception as ex:
        return f"not a well-formed V3000 file: {ex}", info, text
    labels = labels or list(range(len(atoms)))
    if len(oa) != len(atoms):
        return f"{len(oa)} atom lines for {len(atoms)} atoms", info, text
    for lab, a, o in zip(labels, atoms, oa):
        want = (lab + 1, a["el"], float(format(a.get("x", 0), ".6f")), float(format(a.get("y", 0), ".6f")),
                float(format(a.get("z", 0), ".6f")), a.get("chg", 0) or 0, a.get("rad", 0) or 0, a.get("mass", 0) or 0)
        got = (o["idx"], o["el"], o["x"], o["y"], o["z"], o["chg"], o["rad"], o["mass"])
        if want != got:
            return f"file states atom {got}, molecule has {want}", info, text
    wb = {frozenset((labels[i] + 1, labels[j] + 1)): (1 if t is None else t) for i, j, t in bonds}
    gb = {frozenset((a, b)): t for a, b, t in ob}
    if wb != gb or len(ob) != len(bonds):
        return f"file states bonds {sorted(map(sorted, gb))}, molecule has {sorted(map(sorted, wb))}", info, text
    # library read-back
    try:
        g2 = graph_from_molfile_text(text)
    except Exception as ex:
        return f"written file is rejected by the reader: {type(ex).__name__}: {str(ex)[:100]}", info, text
    nodes = list(g2.nodes)
    if nodes != list(range(len(atoms))):
        return f"read-back nodes {nodes[:8]}", info, text
    for i, a in enumerate(atoms):
        d = g2.nodes[i]
        want = (a["el"], a.get("chg", 0) or 0, a.get("rad", 0) or 0, a.get("mass", 0) or 0,
                float(format(a.get("x", 0), ".6f")), float(format(a.get("y", 0), ".6f")), float(format(a.get("z", 0), ".6f")))
        got = (d.get("element_symbol"), d.get("chg", 0) or 0, d.get("rad", 0) or 0, d.get("mass", 0) or 0,
               d.get("x_coord"), d.get("y_coord"), d.get("z_coord"))
        if want != got:
            return f"read-back atom {i}: {got} != {want}", info, text
    wb = {frozenset((i, j)): (1 if t is None else t) for i, j, t in bonds}
    gb = {frozenset((a, b)): d.get("bond_type") for a, b, d in g2.edges(data=True)}
    if wb != gb:
        return f"read-back bonds {gb} != {wb}", info, text
    return None, info, text


LAYOUTS = [{}, {"chg": -15}, {"rad": 3, "mass": 250}, {"chg": 5, "rad": 1, "mass": 13}]


def sweep_cases(tier):
    """(label, atoms, bonds, labels)"""
    maxd = 160
    for d in range(1, maxd + 1):
        for sign in (1, -1):
            for li, lay in enumerate(LAYOUTS):
                x = sign * float(10 ** (d - 1)) * 1.0
                if d <= 15:
                    x = sign * (float(10 ** (d - 1)) + 0.123456)
                a0 = dict(el="Cl", x=x, y=0.5, z=-0.25, **lay)
                a1 = dict(el="C", x=1.0, y=2.0, z=3.0)
                yield (f"x-digits={d} sign={sign} layout={li}", [a0, a1], [(0, 1, 2)], None)
    digits = "1234567890123456789012345678901234567890123456789"
    for d in range(1, 49):
        # non-round values: every digit matters (6 decimals of a float up to 2**53, all integer digits above)
        x = float(int(digits[:d])) + (0.654321 if d <= 9 else 0.0)
        for sign in (1, -1):
            yield (f"x={sign * x!r}", [dict(el="C", x=sign * x, y=float(2 ** 53 + 2), z=-1.2345678901234567e22, chg=-15 if d % 2 else 15)], [], None)
    if tier == "thorough":
        for axis in ("y", "z"):
            for d in range(1, maxd + 1):
                for li, lay in enumerate(LAYOUTS):
                    a0 = dict(el="C", x=0.0, y=0.0, z=0.0, **lay)
                    a0[axis] = -float(10 ** (d - 1))
                    yield (f"{axis}-digits={d} layout={li}", [a0], [], None)
        for d1 in range(1, 120, 7):
            for d2 in range(1, 120, 5):
                a0 = dict(el="Og", x=float(10 ** d1), y=-float(10 ** d2), z=1e-7, chg=15, rad=2, mass=294)
                yield (f"xy-digits={d1},{d2}", [a0], [], None)
        import itertools
        for perm in itertools.permutations(("chg", "rad", "mass")):
            for k in range(0, 4):
                lay = {key: {"chg": 7, "rad": 2, "mass": 99}[key] for key in perm[:k]}  # values inside the format's ranges
                for d in (40, 41, 42, 43, 44, 45, 46, 47, 48, 49, 50):
                    yield (f"attrs={perm[:k]} x-digits={d}", [dict(el="C", x=float(10 ** d), y=0.0, z=0.0, **lay)], [], None)
    # index width / long bond lines through large labels
    for digits in range(1, 41) if tier == "thorough" else (1, 2, 3, 9, 17, 18, 30, 31, 32, 33, 34, 35, 36, 40):
        base = 10 ** (digits - 1)
        labels = [base - 1 + k for k in range(3)] if digits > 1 else [0, 1, 2]
        atoms = [dict(el="C", x=1.5, y=0.0, z=0.0), dict(el="N", x=0.0, y=0.0, z=0.0, chg=1), dict(el="O", x=0.0, y=1.0, z=0.0, mass=18)]
        yield (f"label-digits={digits}", atoms, [(0, 1, 1), (1, 2, 2), (0, 2, None)], labels)
    # bond types, bond counts
    for t in list(range(1, 11)) + [None]:
        yield (f"bondtype={t}", [dict(el="C"), dict(el="C")], [(0, 1, t)], None)
    yield ("no bonds", [dict(el="C"), dict(el="H")], [], None)
    for n in (10, 11, 100, 101, 1000):
        atoms = [dict(el="C", x=float(i), y=0.0, z=0.0) for i in range(n)]
        yield (f"chain{n}", atoms, [(i, i + 1, 1 + i % 3) for i in range(n - 1)], None)
    # every charge / radical / mass value in range
    for chg in range(-15, 16):
        if chg:
            yield (f"chg={chg}", [dict(el="Fe", chg=chg)], [], None)
    for rad in (1, 2, 3):
        for mass in (1, 2, 13, 99, 100, 999):
            yield (f"rad={rad} mass={mass}", [dict(el="C", rad=rad, mass=mass)], [], None)
    # graphs carrying only some coordinate attributes
    yield ("partial-coords", [dict(el="C", x=1.5, y=-2.25, partial=True), dict(el="N", z=3.0, partial=True), dict(el="O", partial=True),
                              dict(el="H", x=0.5, y=0.5, z=0.5)], [(0, 1, 1), (1, 2, 2), (2, 3, 1)], None)
    # non-default iteration order (labels not ascending)
    yield ("iteration-order", [dict(el="C", x=1.0), dict(el="N", x=2.0), dict(el="O", x=3.0)], [(0, 1, 1), (1, 2, 2)], [2, 0, 1])


def sweep_chunk(cases):
    res = {"n": 0, "exec": 0, "vios": [], "wrapped_cases": 0, "align": set(), "maxlen": 0, "samples": []}
    for label, atoms, bonds, labels in cases:
        g = build_graph(atoms, bonds, labels)
        err, info, text = check_written(g, atoms, bonds, labels)
        res["n"] += 1
        res["exec"] += 2
        res["maxlen"] = max(res["maxlen"], info["max_len"])
        if info["wrapped"]:
            res["wrapped_cases"] += 1
            for l in text.split("\n"):
                if l.endswith("-") and l.startswith("M  V30 "):
                    res["align"].add(l[-3:-1])
        if err:
            res["vios"].append(("C09|" + err.split(":")[0][:40].split(" has ")[0], {
                "kind": "c09-graph", "n": len(atoms), "atoms": atoms, "bonds": bonds, "labels": labels,
                "written": text, "summary": f"{label}: {err}"}))
        if not res["samples"] and info["wrapped"]:
            res["samples"].append({"case": label, "written": text})
    res["align"] = sorted(res["align"])
    return res


def roundtrip_shard(job):
    """string -> graph -> molfile -> graph -> string on every E1 class."""
    from tucan.io import graph_from_molfile_text, graph_to_molfile
    from tucan.parser.parser import graph_from_tucan
    from .props_strings import tucan_of

    shard = job
    n, ms, e = shard
    res = {"states": 0, "transitions": 0, "exec": 0, "vios": [], "orbits": 0}
    nb = n * (n - 1) // 2
    visited = set()
    for colors in G.distinct_arrangements(ms):
        for mask in G.masks_with_popcount(nb, e):
            st0 = (colors, mask)
            if st0 in visited:
                continue
            orb, actions = G.orbit(n, st0)
            visited.update(orb)
            res["states"] += len(orb)
            res["transitions"] += actions
            res["orbits"] += 1
            s = e1.pipeline(n, st0)[2]
            try:
                g = graph_from_tucan(s)
                text = graph_to_molfile(g)
                s2 = tucan_of(graph_from_molfile_text(text))
            except Exception as ex:
                res["vios"].append(("C09|roundtrip|exc", {"kind": "c09-string", "n": n, "tucan": s,
                                                          "summary": f"{s!r}: {type(ex).__name__}: {ex}"}))
                continue
            res["exec"] += 1
            if s2 != s:
                res["vios"].append(("C09|roundtrip", {"kind": "c09-string", "n": n, "tucan": s,
                                                      "summary": f"string->graph->molfile->graph->string: {s!r} -> {s2!r}"}))
    return res


def run(tier):
    rep = Report("C09", tier)
    cases = list(sweep_cases(tier))
    chunks = [cases[i::48] for i in range(48)]
    aligns = set()
    wrapped = 0
    maxlen = 0
    for _, res in pmap(sweep_chunk, [c for c in chunks if c]):
        rep.add(states=res["n"], transitions=res["n"], traces_validated_against_impl=res["exec"])
        wrapped += res["wrapped_cases"]
        aligns.update(res["align"])
        maxlen = max(maxlen, res["maxlen"])
        for key, case in res["vios"]:
            rep.violation(key, case)
        for s in res["samples"][:1]:
            rep.sample(s, cap=2)
    spaces = e1.QUICK_SPACES if tier == "quick" else e1.QUICK_SPACES + [(4, e1.A7, None), (6, e1.A2, None)]
    orbits = 0
    for _, res in pmap(roundtrip_shard, e1.space_shards(spaces)):
        rep.add(states=res["states"], transitions=res["transitions"], traces_validated_against_impl=res["exec"])
        orbits += res["orbits"]
        for key, case in res["vios"]:
            rep.violation(key, case)
    rep.add(sweep_graphs=len(cases), distinct_nontrivial=wrapped, wrap_alignments_seen=len(aligns),
            longest_physical_line=maxlen, roundtrip_classes=orbits,
            rule="graphs whose atom/bond line length sweeps every length from the minimum to >=2 wraps (integer digits "
                 "of x 1..160 x sign x 4 attribute layouts, label widths, all charges/radicals/bond types), each "
                 "written by the library, checked by an own V3000 reader and read back by the library; plus "
                 "string->graph->molfile->graph->string for every E1 class; non-trivial = graphs with >=1 wrapped line; "
                 "wrap_alignments_seen = distinct 2-character contexts left of the continuation dash")
    rep.assumptions.append("own minimal V3000 reader for the writer's dialect; coordinates compared as float(format(x,'.6f'))")
    return rep.finish()


def replay(prop, rec):
    if rec["kind"] == "c09-string":
        from tucan.io import graph_from_molfile_text, graph_to_molfile
        from tucan.parser.parser import graph_from_tucan
        from .props_strings import tucan_of

        s = rec["tucan"]
        s2 = tucan_of(graph_from_molfile_text(graph_to_molfile(graph_from_tucan(s))))
        return s2 != s, f"{s!r} -> {s2!r}"
    atoms, bonds, labels = rec["atoms"], [tuple(b) for b in rec["bonds"]], rec["labels"]
    g = build_graph(atoms, bonds, labels)
    err, info, text = check_written(g, atoms, bonds, labels)
    return bool(err), err or "written file is well-formed and reads back as the same molecule"
