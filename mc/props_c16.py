"""C16 / E5-RNG — permute_molecule under an owned RNG: every answer vector of the shuffle (all n! outcomes),
retry tree to a bounded depth; plus a grid of real seeds."""
from __future__ import annotations

import copy
import random

from . import graphs as G
from .common import Report, pmap
from .ref.periodic import Z


class Horizon(Exception):
    pass


class Closed(Exception):
    """The retry loop is back in a control state it was in one retry earlier: the subtree below repeats."""


_SIMPLE = (int, float, bool, str, type(None))


def _loop_state():
    """Control state of the running permute_molecule call as far as plain values show it: line, plain-valued locals
    (loop counters, flags), plain-valued module globals of tucan.graph_utils. Graph-valued locals are left out: the
    argument is verified unchanged separately and the candidate result is recomputed from it on every retry."""
    import sys

    f = sys._getframe(1)
    while f is not None and f.f_code.co_name != "permute_molecule":
        f = f.f_back
    if f is None:
        return None
    loc = tuple(sorted((k, v) for k, v in f.f_locals.items() if isinstance(v, _SIMPLE) and k != "random_seed"))
    glob = tuple(sorted((k, v) for k, v in f.f_globals.items() if isinstance(v, _SIMPLE) and not k.startswith("__")))
    attrs = tuple(sorted((k, v) for k, v in getattr(f.f_globals.get("permute_molecule"), "__dict__", {}).items()
                         if isinstance(v, _SIMPLE)))
    return (f.f_lineno, loc, glob, attrs)


class Chooser:
    """Replays `prefix`, then answers 0; records (bound, answer) of every draw."""

    def __init__(self, prefix, max_draws, natoms=None, close_after=None):
        self.prefix = prefix
        self.points = []
        self.max_draws = max_draws
        self.natoms = natoms          # a draw with bound == natoms starts a new shuffle
        self.close_after = close_after  # from this retry number on, a repeated loop state closes the branch
        self.shuffle_states = []

    def __call__(self, n):
        k = len(self.points)
        if self.natoms is not None and n == self.natoms and self.natoms > 1:
            self.shuffle_states.append(_loop_state())
            r = len(self.shuffle_states) - 1  # 0 = initial shuffle, r = r-th retry
            if (self.close_after is not None and r >= self.close_after and self.shuffle_states[r] is not None
                    and self.shuffle_states[r] == self.shuffle_states[r - 1]):
                raise Closed()
        if k >= self.max_draws:
            raise Horizon()
        a = self.prefix[k] if k < len(self.prefix) else 0
        if not 0 <= a < n:
            raise RuntimeError(f"replay divergence: answer {a} for bound {n} at draw {k}")
        self.points.append((n, a))
        return a


class OwnedRNG:
    def __init__(self, chooser):
        self.chooser = chooser
        self.unowned = []

    def __enter__(self):
        self._saved = random.Random._randbelow
        ch = self.chooser
        random.Random._randbelow = lambda self_, n: ch(n)
        self._mod = {}
        for name in ("random", "getrandbits", "randint", "randrange", "choice", "sample", "uniform", "randbytes"):
            self._mod[name] = getattr(random, name)
            setattr(random, name, self._trap(name))
        return self

    def _trap(self, name):
        def f(*a, **k):
            self.unowned.append(name)
            return self._mod[name](*a, **k)
        return f

    def __exit__(self, *a):
        random.Random._randbelow = self._saved
        for name, f in self._mod.items():
            setattr(random, name, f)


def build(n, edges, order=None, labels=None):
    import networkx as nx

    g = nx.Graph()
    labels = labels or list(range(n))
    for i in (order or range(n)):
        g.add_node(labels[i], element_symbol=("C", "N", "O", "H", "S", "P", "F", "B")[i % 8], atomic_number=Z[("C", "N", "O", "H", "S", "P", "F", "B")[i % 8]],
                   partition=(i * 7) % 5, x_coord=float(i) + 0.5, chg=(i % 3) - 1, mass=10 + i, rad=1 + i % 3, orig=labels[i],
                   invariant_code=(i, 10 + i, 1 + i % 3))
    for k, (a, b) in enumerate(edges):
        g.add_edge(labels[a], labels[b], bond_type=1 + k % 4, tag=f"e{k}")
    return g


def snapshot(g):
    return ([(k, sorted(copy.deepcopy(d).items())) for k, d in g.nodes(data=True)],
            [(a, [(b, sorted(copy.deepcopy(d).items())) for b, d in nb.items()]) for a, nb in g.adjacency()])


def check_result(g, r, enforce_expected):
    """g: argument (already verified unchanged), r: result. Returns error or None, and the mapping."""
    nodes_in = list(g.nodes)
    nodes_out = list(r.nodes)
    if sorted(nodes_out) != sorted(nodes_in):
        return f"label set changed: {sorted(nodes_out)} vs {sorted(nodes_in)}", None
    if nodes_out != sorted(nodes_out):
        return f"atoms not listed in label order: {nodes_out}", None
    mapping = {}
    for new, d in r.nodes(data=True):
        o = d.get("orig")
        if o in mapping:
            return f"two result atoms carry the attributes of atom {o}", None
        mapping[o] = new
    if sorted(mapping) != sorted(nodes_in):
        return f"attributes not carried one-to-one: {mapping}", None
    for o in nodes_in:
        if dict(g.nodes[o]) != dict(r.nodes[mapping[o]]):
            return f"atom attributes changed: {dict(g.nodes[o])} -> {dict(r.nodes[mapping[o]])}", mapping
    if r.number_of_edges() != g.number_of_edges():
        return f"bond count changed {g.number_of_edges()} -> {r.number_of_edges()}", mapping
    for a, b, d in g.edges(data=True):
        if not r.has_edge(mapping[a], mapping[b]):
            return f"bond {a}-{b} lost (not isomorphic under the carried mapping)", mapping
        if dict(r.edges[mapping[a], mapping[b]]) != dict(d):
            return f"bond attributes changed on {a}-{b}: {d} -> {dict(r.edges[mapping[a], mapping[b]])}", mapping
    if enforce_expected:
        if {frozenset(e) for e in g.edges()} == {frozenset(e) for e in r.edges()}:
            return "edge set equals the original although the molecule has >=2 bonds and is not complete", mapping
    return None, mapping


def _variant(n, variant):
    order = labels = None
    if variant == "scrambled-insertion":
        order = list(range(n - 1, -1, -1))
    elif variant == "one-based-labels":
        labels = [i + 1 for i in range(n)]
    elif variant == "sparse-labels":
        labels = [10 * i + 3 for i in range(n)]
    elif variant == "sparse-scrambled":
        labels = [10 * i + 3 for i in range(n)]
        order = list(range(n - 1, -1, -1))
    return order, labels


def explore_graph(job):
    from tucan.graph_utils import permute_molecule

    n, mask, variant, max_retries = job
    close_after = None
    if isinstance(max_retries, tuple):
        # (executed-in-full retries, execution budget): retries 1..executed are always run; from retry executed+1 on a branch
        # is closed when the loop's control state repeats, otherwise explored on to the deepest retry the budget allows
        executed, budget = max_retries
        close_after = executed + 1
        import itertools
        import math

        es = {frozenset(e) for e in G.edges_of(n, mask)}
        aut = sum(1 for p in itertools.permutations(range(n)) if {frozenset((p[a], p[b])) for a, b in es} == es)
        max_retries = executed
        while max_retries < 12 and math.factorial(n) * aut ** (max_retries + 1) <= budget:
            max_retries += 1
    edges = G.edges_of(n, mask)
    order = None
    labels = None
    order, labels = _variant(n, variant)
    g = build(n, edges, order, labels)
    before = snapshot(g)
    m = len(edges)
    enforce = m > 1 and m != n * (n - 1) // 2
    res = {"exec": 0, "vios": [], "horizon": 0, "closed": 0, "retry_exec": 0, "mappings": set(), "points": 0, "unowned": 0,
           "deepest_retry": 0}
    max_draws = (n - 1) * (max_retries + 1) if n > 1 else 0
    stack = [[]]
    while stack:
        prefix = stack.pop()
        ch = Chooser(prefix, max_draws, n if close_after is not None else None, close_after)
        cut = False
        closed = False
        with OwnedRNG(ch) as rng:
            try:
                r = permute_molecule(g, random_seed=0.5)
            except Horizon:
                cut = True
                r = None
            except Closed:
                cut = closed = True
                r = None
            except Exception as ex:
                res["vios"].append(("C16|exc", _case(n, edges, variant, prefix, f"raised {type(ex).__name__}: {ex}")))
                r = None
        if rng.unowned:
            res["unowned"] += 1
        pts = ch.points
        res["points"] += len(pts)
        for i in range(len(prefix), len(pts)):
            for alt in range(1, pts[i][0]):
                stack.append([a for _, a in pts[:i]] + [alt])
        res["deepest_retry"] = max(res["deepest_retry"], len(ch.shuffle_states) - 1)
        if cut:
            res["closed" if closed else "horizon"] += 1
            continue
        if r is None:
            continue
        res["exec"] += 1
        if len(pts) > max(0, n - 1):
            res["retry_exec"] += 1
        if snapshot(g) != before:
            res["vios"].append(("C16|arg-mutated", _case(n, edges, variant, prefix, "argument was modified")))
            g = build(n, edges, order, labels)
        err, mapping = check_result(g, r, enforce)
        if mapping:
            res["mappings"].add(tuple(sorted(mapping.items())))
        if err:
            res["vios"].append(("C16|" + err.split(":")[0][:40], _case(n, edges, variant, [a for _, a in pts], err)))
    res["mappings"] = len(res["mappings"])
    return res


def _case(n, edges, variant, answers, msg):
    return {"kind": "c16-rng", "n": n, "edges": edges, "variant": variant, "answers": answers,
            "summary": f"n={n} bonds={edges} {variant} answers={answers}: {msg}"}


def seed_job(job):
    """Real RNG: same seed => same result, also with other random use in between; result faithful."""
    from tucan.graph_utils import permute_molecule

    n, mask, seeds = job
    edges = G.edges_of(n, mask) if not isinstance(mask, list) else mask
    g = build(n, edges)
    before = snapshot(g)
    m = len(edges)
    enforce = m > 1 and m != n * (n - 1) // 2
    res = {"exec": 0, "vios": [], "distinct": set()}
    for sd in seeds:
        r1 = permute_molecule(g, random_seed=sd)
        snap1 = snapshot(r1)
        r1.add_edge(10 ** 6, 10 ** 6 + 1)  # the caller owns the result; a later call must not see this
        for _, d in r1.nodes(data=True):
            d["scribble"] = True
        r1 = None
        random.random()
        random.shuffle([1, 2, 3])
        r2 = permute_molecule(g, random_seed=sd)
        res["exec"] += 2
        if snap1 != snapshot(r2):
            res["vios"].append(("C16|seed-nondeterministic", {"kind": "c16-seed", "n": n, "edges": edges, "seed": sd,
                                                            "summary": f"seed {sd}: two calls differ"}))
        if snapshot(g) != before:
            res["vios"].append(("C16|arg-mutated", {"kind": "c16-seed", "n": n, "edges": edges, "seed": sd,
                                                    "summary": "argument was modified"}))
            g = build(n, edges)
        err, mapping = check_result(g, r2, enforce)
        if err:
            res["vios"].append(("C16|" + err.split(":")[0][:40], {"kind": "c16-seed", "n": n, "edges": edges, "seed": sd,
                                                                 "summary": f"seed {sd}: {err}"}))
        if mapping:
            res["distinct"].add(tuple(sorted(mapping.items())))
    res["distinct"] = len(res["distinct"])
    return res


ZOO = {
    "C6 ring": (6, [(i, (i + 1) % 6) for i in range(6)]),
    "prism": (6, [(0, 1), (1, 2), (2, 0), (3, 4), (4, 5), (5, 3), (0, 3), (1, 4), (2, 5)]),
    "K33": (6, [(i, j) for i in range(3) for j in range(3, 6)]),
    "2xC3": (6, [(0, 1), (1, 2), (2, 0), (3, 4), (4, 5), (5, 3)]),
    "star5": (6, [(0, i) for i in range(1, 6)]),
    "K6 minus edge": (6, [(i, j) for i in range(6) for j in range(i + 1, 6) if (i, j) != (0, 1)]),
    "path7": (7, [(i, i + 1) for i in range(6)]),
}


def run(tier):
    rep = Report("C16", tier)
    nmax = 4 if tier == "quick" else 5
    budget = 30000 if tier == "quick" else 300000  # executions per graph if the retry loop's control state never repeats
    jobs = []
    for n in range(1, nmax + 1):
        for mask in range(1 << (n * (n - 1) // 2)):
            jobs.append((n, mask, "label-order", (2, budget)))
            if n in (2, 3) or (n == 4 and mask % 5 == 0):
                for v in ("scrambled-insertion", "one-based-labels", "sparse-labels", "sparse-scrambled"):
                    jobs.append((n, mask, v, (2, budget)))
    for name, (n, edges) in ZOO.items():
        if n <= (6 if tier == "quick" else 7):
            jobs.append((n, G.mask_of(n, edges), "label-order", 1))
    jobs.sort(key=lambda j: -j[0])
    for job, res in pmap(explore_graph, jobs, chunksize=4):
        rep.add(states=res["exec"] + res["horizon"], transitions=res["points"], traces_validated_against_impl=res["exec"],
                horizon_cuts=res["horizon"], branches_closed_by_repeated_loop_state=res["closed"],
                deepest_retry_reached=max(rep.cov.get("deepest_retry_reached", 0), res["deepest_retry"]) - rep.cov.get("deepest_retry_reached", 0),
                executions_with_retry=res["retry_exec"], distinct_nontrivial=res["mappings"],
                executions_with_unowned_draws=res["unowned"])
        for key, case in res["vios"]:
            rep.violation(key, case)
    grid = 64 if tier == "quick" else 4096
    seeds = [k / grid for k in range(grid)]
    sjobs = []
    for n in (3, 4, 5):
        for mask in range(1 << (n * (n - 1) // 2)):
            if n < 5 or mask % (97 if tier == "quick" else 13) == 0:
                sjobs.append((n, mask, seeds if n < 5 or tier == "quick" else seeds[::16]))
    # molecules with two-digit labels (no exhaustive shuffle enumeration possible: real seeds only)
    for n in (10, 11, 12, 25):
        sjobs.append((n, [(i, i + 1) for i in range(n - 1)], seeds[::2]))
        sjobs.append((n, [(0, i) for i in range(1, n)], seeds[1::4]))
    sexec = 0
    for job, res in pmap(seed_job, sjobs, chunksize=4):
        sexec += res["exec"]
        rep.add(traces_validated_against_impl=res["exec"], transitions=res["exec"])
        for key, case in res["vios"]:
            rep.violation(key, case)
    rep.add(graphs_explored=len(jobs), seed_grid=grid, seed_executions=sexec,
            rule="for every labelled graph with n<=4 (thorough 5) atoms with tracer attributes, and zoo members: the tree of "
                 "all RNG answer vectors (every Fisher-Yates outcome); the retry loop is run in full to retry 2; from retry 3 on a "
                 "branch is closed when the control state of the running permute_molecule frame (line, plain-valued locals, "
                 "plain-valued module globals) equals the one a retry earlier - the loop is then a cycle of the state graph "
                 "and every outcome below it has been executed - and is otherwise explored on, up to the deepest retry an "
                 "execution budget per graph allows (quick 30 000: retry 11 for the 3-atom path, 3..9 for 4 atoms; reported as "
                 "horizon cut); zoo graphs: retry 1, horizon cut; "
                 "result judged through the tracer attribute; plus a grid of real seeds called twice with other random use "
                 "in between; states = complete executions; distinct_nontrivial = distinct atom mappings observed (summed "
                 "over graphs)")
    rep.sample({"n": 3, "edges": [(0, 1), (1, 2)], "answers": [1, 0], "meaning": "answers of randbelow(3), randbelow(2) in the shuffle"})
    rep.assumptions.append("CPython's random.shuffle draws only through Random._randbelow (checked: unowned draws are trapped and counted)")
    if rep.cov.get("executions_with_unowned_draws"):
        rep.cov["exhaustive"] = False
    return rep.finish()


def replay(prop, rec):
    from tucan.graph_utils import permute_molecule

    n, edges = rec["n"], [tuple(e) for e in rec["edges"]]
    m = len(edges)
    enforce = m > 1 and m != n * (n - 1) // 2
    if rec["kind"] == "c16-seed":
        g = build(n, edges)
        r1 = permute_molecule(g, random_seed=rec["seed"])
        r2 = permute_molecule(g, random_seed=rec["seed"])
        err, _ = check_result(build(n, edges), r1, enforce)
        if snapshot(r1) != snapshot(r2):
            err = err or "two calls with the same seed differ"
        return bool(err), err or "ok"
    order, labels = _variant(n, rec["variant"])
    g = build(n, edges, order, labels)
    before = snapshot(g)
    ch = Chooser(rec["answers"], len(rec["answers"]) + 10 * n)
    with OwnedRNG(ch):
        try:
            r = permute_molecule(g, random_seed=0.5)
        except Exception as ex:
            return True, f"raised {type(ex).__name__}: {ex}"
    if snapshot(g) != before:
        return True, "argument was modified"
    err, _ = check_result(g, r, enforce)
    return bool(err), err or "ok"
