"""E1 — orbit explorer over labelled coloured graphs, run on the real TUCAN pipeline.

One shard = (n, colour multiset, edge count): closed under relabelling. A worker enumerates every
state of the shard, closes each unvisited state under the relabelling actions (= its full S_n
orbit), runs the real pipeline on *every* state and evaluates the monitors of the requested
properties. The parent merges per-orbit summaries (for the cross-orbit oracle of C02).
"""
from __future__ import annotations

import copy
from itertools import combinations_with_replacement, permutations, product

from . import graphs as G

COLOURS = (G.C, G.H, G.D, G.C13, G.CRAD, G.O, G.N, G.CL, G.C13RAD, G.NO256, G.LR, G.MD256, G.NO, G.CRAD1, G.CRAD3)
CI = {c: i for i, c in enumerate(COLOURS)}


def alphabet(*cols):
    return tuple(CI[c] for c in cols)


A6 = alphabet(*G.SIGMA6)
A7 = alphabet(*G.SIGMA6, G.C13RAD)  # incl. an atom carrying isotope AND radical label
A5 = alphabet(G.C, G.H, G.C13, G.CRAD, G.C13RAD)
A4 = alphabet(*G.SIGMA4)
A3 = alphabet(*G.SIGMA3)
A2 = alphabet(G.C, G.O)
A1 = alphabet(G.C)


def space_shards(spaces):
    """spaces: list of (n, alphabet, max_deviating or None). Returns de-duplicated shard list
    [(n, multiset, e)] — a shard is visited once even if two spaces contain it."""
    seen = set()
    out = []
    for n, alph, maxdev in spaces:
        base = alph[0]
        for ms in combinations_with_replacement(sorted(alph), n):
            if maxdev is not None and sum(1 for c in ms if c != base) > maxdev:
                continue
            for e in range(n * (n - 1) // 2 + 1):
                key = (n, ms, e)
                if key not in seen:
                    seen.add(key)
                    out.append(key)
    # biggest first for load balance
    out.sort(key=lambda k: -_shard_size(k))
    return out


def _shard_size(key):
    from math import comb, factorial

    n, ms, e = key
    arr = factorial(n)
    for c in set(ms):
        arr //= factorial(ms.count(c))
    return arr * comb(n * (n - 1) // 2, e)


QUICK_SPACES = [
    (1, A7, None),
    (2, A7, None),
    (3, A7, None),
    (4, A5, None),
    (5, A3, None),
    (6, A1, None),
    (6, alphabet(G.C, G.C13), 1),
    (6, alphabet(G.C, G.CRAD), 1),
    # isotope masses >= 256 next to the following element (invariants packed into bytes, string vs number order)
    (3, alphabet(G.O, G.NO256, G.LR, G.MD256, G.NO), None),
    (4, alphabet(G.O, G.NO256, G.LR), None),
    # every radical value the formats know (1 = singlet, 2 = doublet, 3 = triplet) against the unflagged atom
    (3, alphabet(G.C, G.CRAD1, G.CRAD, G.CRAD3), None),
    (4, alphabet(G.C, G.CRAD1, G.CRAD), None),
]
THOROUGH_SPACES = QUICK_SPACES + [
    (4, A7, None),
    (5, A6, None),
    (5, alphabet(G.C, G.C13RAD, G.O), None),
    (6, A2, None),
    (6, A6, 2),
    (7, A1, None),
    (7, alphabet(G.C, G.C13), 1),
]


def resolve(colors):
    return [COLOURS[c] for c in colors]


# ----------------------------------------------------------------------------------------------
# the real pipeline
# ----------------------------------------------------------------------------------------------
def pipeline(n, state, bonds=None, rich=False, atom_order=None):
    """Run reader -> canonicalize -> serialize of the real code. Returns (g_in, g_canon, string)."""
    from tucan.canonicalization import canonicalize_molecule
    from tucan.io import graph_from_molfile_text
    from tucan.serialization import serialize_molecule

    colors, mask = state
    if bonds is None:
        bonds = G.edges_of(n, mask)
    xs = [i + 1 for i in range(n)]
    if rich:
        chgs = [(i % 3) - 1 for i in range(n)]
        btypes = [1 + (j % 4) for j in range(len(bonds))]
        text = G.render_v3000(n, resolve(colors), bonds, xs, chgs, btypes)
    else:
        text = G.render_v3000(n, resolve(colors), bonds, xs, atom_order=atom_order)
    g = graph_from_molfile_text(text)
    gc = canonicalize_molecule(g)
    s = serialize_molecule(gc)
    return g, gc, s, text


def canon_signature(gc):
    """C04 signature of the canonical graph: nodes must be 0..n-1."""
    n = gc.number_of_nodes()
    nodes = sorted(gc.nodes)
    if nodes != list(range(n)):
        return ("BADNODES", tuple(nodes))
    sig = tuple(
        (
            gc.nodes[k].get("element_symbol"),
            gc.nodes[k].get("mass") or 0,
            gc.nodes[k].get("rad") or 0,
            gc.nodes[k].get("partition"),
        )
        for k in range(n)
    )
    es = tuple(sorted(tuple(sorted(e)) for e in gc.edges()))
    return (sig, es)


def snapshot(g):
    """Deep structural snapshot of a networkx graph incl. iteration orders."""
    return (
        [(k, sorted(copy.deepcopy(d).items())) for k, d in g.nodes(data=True)],
        [(a, [(b, sorted(copy.deepcopy(d).items())) for b, d in nb.items()]) for a, nb in g.adjacency()],
        sorted(g.graph.items()),
    )


def refine_once(n, colour_of, cls, adj):
    """One more refinement round in my own code: returns True iff the partition is equitable and
    monochromatic."""
    byclass = {}
    for a in range(n):
        key = (colour_of[a], tuple(sorted(cls[b] for b in adj[a])))
        byclass.setdefault(cls[a], set()).add(key)
    return all(len(v) == 1 for v in byclass.values())


def run_shard(job):
    props, shard, opts = job
    n, ms, e = shard
    nb = n * (n - 1) // 2
    res = {
        "states": 0, "transitions": 0, "exec": 0, "orbits": [], "vios": [],
        "nontrivial": 0, "listing_exec": 0, "aut_roots": 0, "multi_round": 0, "samples": [],
        "hist_exec": 0,
    }
    vios = res["vios"]
    arrangements = G.distinct_arrangements(ms)
    visited = set()
    rich = "C12" in props
    for colors in arrangements:
        for mask in G.masks_with_popcount(nb, e):
            st0 = (colors, mask)
            if st0 in visited:
                continue
            orb, actions = G.orbit(n, st0)
            visited.update(orb)
            res["transitions"] += actions
            res["states"] += len(orb)
            root_out = None
            orbit_nontrivial = False
            last = None
            for st, perm in orb.items():
                try:
                    g, gc, s, text = pipeline(n, st, rich=rich)
                except Exception as ex:  # the pipeline must not fail on a molecule (C15 owns it, but report)
                    vios.append((f"exc|{type(ex).__name__}", {
                        "kind": "e1", "n": n, "state": st, "summary": f"pipeline raised {ex!r}"}))
                    continue
                res["exec"] += 1
                sig = canon_signature(gc)
                out = {"s": s, "sig": sig, "st": st, "perm": perm, "text": text}
                if root_out is None:
                    root_out = out
                    # non-trivial: refined partition has a non-singleton class
                    if sig[0] != "BADNODES":
                        classes = [x[3] for x in sig[0]]
                        orbit_nontrivial = len(set(classes)) < len(classes)
                else:
                    if "C01" in props and s != root_out["s"]:
                        vios.append(("C01|orbit", _case(n, root_out, out, "strings differ within one orbit")))
                    if "C04" in props and sig != root_out["sig"]:
                        vios.append(("C04|orbit", _case(n, root_out, out, "canonical graphs differ within one orbit")))
                if "C04" in props and sig[0] == "BADNODES":
                    vios.append(("C04|nodes", _case(n, root_out, out, "canonical nodes are not 0..n-1")))
                if "C13" in props:
                    _c13_state(n, st, perm, g, gc, root_out, out, vios, res)
                if "C12" in props:
                    _c12_state(n, st, g, gc, s, vios, res)
                last = st
            if root_out is None:
                continue
            if orbit_nontrivial:
                res["nontrivial"] += len(orb)
            if "C13" in props:
                _c13_root(n, st0, root_out, vios, res)
            targets = [st0] if last in (None, st0) else [st0, last]
            if "C01" in props:
                for st in (list(orb) if n <= 3 else targets):
                    _c01_listing(n, st, root_out["s"], opts.get("listing_d", 1), vios, res)
            if props & {"C01", "C04", "C13"}:
                for st in (list(orb) if n <= 4 else targets):
                    _derived(n, st, root_out, props, vios, res)
            if "C12" in props:
                _c12_histories(n, st0, vios, res)
                for st in (list(orb) if n <= 3 else targets):
                    _c12_derived_inputs(n, st, vios, res)
            res["orbits"].append((st0, root_out["s"], len(orb), orbit_nontrivial))
            if len(res["samples"]) < 1:
                res["samples"].append({"n": n, "colours": [list(COLOURS[c]) for c in st0[0]],
                                       "bonds": G.edges_of(n, st0[1]), "orbit_size": len(orb),
                                       "tucan": root_out["s"]})
    return res


def _case(n, a, b, what):
    return {
        "kind": "e1-pair", "n": n, "summary": f"{what}: {a['s']!r} vs {b['s']!r}",
        "state_a": a["st"], "state_b": b["st"], "molfile_a": a["text"], "molfile_b": b["text"],
        "tucan_a": a["s"], "tucan_b": b["s"], "sig_a": a["sig"], "sig_b": b["sig"],
    }


# -- C01: bond listing order / orientation deviations ----------------------------------------------
def listing_variants(bonds, d):
    """All listings reachable with <= d actions from {swap adjacent bonds j/j+1, flip bond j};
    d < 0 => fixpoint (all orders x all orientations)."""
    m = len(bonds)
    if m == 0:
        return []
    start = tuple(bonds)
    if d < 0:
        out = set()
        for order in permutations(range(m)):
            for flips in product((0, 1), repeat=m):
                out.add(tuple((bonds[j][1], bonds[j][0]) if flips[j] else bonds[j] for j in order))
        out.discard(start)
        return sorted(out)
    seen = {start}
    frontier = [start]
    for _ in range(d):
        nxt = []
        for l in frontier:
            for j in range(m):
                l2 = list(l)
                l2[j] = (l[j][1], l[j][0])
                l2 = tuple(l2)
                if l2 not in seen:
                    seen.add(l2)
                    nxt.append(l2)
                if j + 1 < m:
                    l3 = list(l)
                    l3[j], l3[j + 1] = l3[j + 1], l3[j]
                    l3 = tuple(l3)
                    if l3 not in seen:
                        seen.add(l3)
                        nxt.append(l3)
        frontier = nxt
    seen.discard(start)
    return sorted(seen)


def _c01_listing(n, st, expect, d, vios, res):
    bonds = G.edges_of(n, st[1])
    # atom lines listed in another order than their index values (indices and bonds unchanged)
    orders = []
    if n >= 2:
        for k in range(n - 1):
            o = list(range(n))
            o[k], o[k + 1] = o[k + 1], o[k]
            orders.append(o)
        orders.append(list(range(n - 1, -1, -1)))
        if n <= 4:
            from itertools import permutations as _p
            orders = [list(o) for o in _p(range(n)) if list(o) != list(range(n))]
    for o in orders:
        res["transitions"] += 1
        try:
            g, gc, s, text = pipeline(n, st, atom_order=o)
        except Exception as ex:
            vios.append((f"C01|atom-order-exc|{type(ex).__name__}", {
                "kind": "e1", "n": n, "state": st, "atom_order": o, "summary": f"atom line order {o}: pipeline raised {ex!r}"}))
            continue
        res["exec"] += 1
        res["listing_exec"] += 1
        if s != expect:
            vios.append(("C01|atom-order", {
                "kind": "e1-listing", "n": n, "state": st, "atom_order": o, "molfile_b": text, "tucan_a": expect, "tucan_b": s,
                "summary": f"atom line order {o} (same indices) changes the string: {expect!r} vs {s!r}"}))
    dd = -1 if len(bonds) <= 3 else d
    for l in listing_variants(bonds, dd):
        res["transitions"] += 1
        try:
            g, gc, s, text = pipeline(n, st, bonds=list(l))
        except Exception as ex:
            vios.append((f"C01|listing-exc|{type(ex).__name__}", {
                "kind": "e1", "n": n, "state": st, "bonds": l, "summary": f"pipeline raised {ex!r}"}))
            continue
        res["exec"] += 1
        res["listing_exec"] += 1
        if s != expect:
            vios.append(("C01|listing", {
                "kind": "e1-listing", "n": n, "state": st, "bonds": l, "molfile_b": text,
                "tucan_a": expect, "tucan_b": s,
                "summary": f"bond listing/orientation changes the string: {expect!r} vs {s!r}"}))


# -- graph-level descriptions derived with the networkx API ------------------------------------------------
def _derived(n, st, root_out, props, vios, res):
    """Other descriptions of the same molecule at the graph level: the canonical graph itself (re-canonicalize),
    nx.relabel_nodes renumberings (iteration order != label order), a graph with reversed node insertion order."""
    import networkx as nx
    from tucan.canonicalization import canonicalize_molecule
    from tucan.serialization import serialize_molecule

    g, gc, s, text = pipeline(n, st)
    variants = []
    variants.append(("recanonicalize", lambda: gc))
    if n >= 2:
        variants.append(("relabel-canonical", lambda: nx.relabel_nodes(gc, {k: (k + 1) % n for k in range(n)}, copy=True)))
        variants.append(("relabel-input", lambda: nx.relabel_nodes(g, {0: n - 1, n - 1: 0}, copy=True)))

        def rev():
            h = nx.Graph()
            h.add_nodes_from(reversed(list(g.nodes(data=True))))
            h.add_edges_from(reversed(list(g.edges(data=True))))
            return h
        variants.append(("reversed-insertion", rev))

        def prepartitioned():
            # stale partition data on the input (the public partition helper applied by the caller, as in docs/demo)
            from tucan.canonicalization import partition_molecule_by_attribute

            return partition_molecule_by_attribute(g, "atomic_number")
        variants.append(("pre-partitioned-input", prepartitioned))

        def edited_from_neighbour():
            # arrive at this molecule by editing, in place, the caller's graph of a neighbouring molecule (one bond
            # toggled) that has just been canonicalized
            colors, mask = st
            st_nb = (colors, mask ^ 1)
            g_nb = pipeline(n, st_nb)[0]
            canonicalize_molecule(g_nb)
            a, b = G.pairs(n)[0]
            if mask & 1:
                g_nb.add_edge(a, b, bond_type=1)
            else:
                g_nb.remove_edge(a, b)
            return g_nb
        variants.append(("edited-in-place-from-neighbour", edited_from_neighbour))
    for name, mk in variants:
        res["transitions"] += 1
        try:
            h = mk()
            hc = canonicalize_molecule(h)
            sig = canon_signature(hc)
            s2 = serialize_molecule(hc)
        except Exception as ex:
            vios.append((f"derived|{name}|exc", {"kind": "e1-derived", "n": n, "state": st, "variant": name,
                                                 "summary": f"{name}: raised {type(ex).__name__}: {ex}"}))
            continue
        res["exec"] += 1
        res["derived_exec"] = res.get("derived_exec", 0) + 1
        if "C01" in props and s2 != root_out["s"]:
            vios.append((f"C01|derived|{name}", {"kind": "e1-derived", "n": n, "state": st, "variant": name, "molfile": text,
                                                 "summary": f"{name}: string {s2!r} != {root_out['s']!r}"}))
        if "C04" in props and sig != root_out["sig"]:
            vios.append((f"C04|derived|{name}", {"kind": "e1-derived", "n": n, "state": st, "variant": name, "molfile": text,
                                                 "summary": f"{name}: canonical graph differs from the one of the molfile description"}))
        if "C13" in props and sig[0] != "BADNODES" and root_out["sig"][0] != "BADNODES" and \
                [x[3] for x in sig[0]] != [x[3] for x in root_out["sig"][0]]:
            vios.append((f"C13|derived|{name}", {"kind": "e1-derived", "n": n, "state": st, "variant": name, "molfile": text,
                                                 "summary": f"{name}: partition classes by canonical position differ: "
                                                            f"{[x[3] for x in sig[0]]} vs {[x[3] for x in root_out['sig'][0]]}"}))


# -- C13 -------------------------------------------------------------------------------------------
def _c13_state(n, st, perm, g, gc, root_out, out, vios, res):
    colors, mask = st
    text = out["text"]
    cls = [None] * n
    for k, d in gc.nodes(data=True):
        i = int(round(d["x_coord"])) - 1
        if 0 <= i < n:
            cls[i] = d["partition"]
    out["cls"] = cls
    if any(c is None for c in cls):
        vios.append(("C13|lost", {"kind": "e1", "n": n, "state": st, "molfile": text,
                                  "summary": "an atom has no partition class after canonicalization"}))
        return
    # (b) monochromatic + equitable, own refinement round
    adj = [[] for _ in range(n)]
    for a, b in G.edges_of(n, mask):
        adj[a].append(b)
        adj[b].append(a)
    if not refine_once(n, [COLOURS[c] for c in colors], cls, adj):
        vios.append(("C13|equitable", {"kind": "e1", "n": n, "state": st, "molfile": text, "classes": cls,
                                       "summary": f"partition not monochromatic/equitable: classes={cls}"}))
    # (a) label independence: class of root atom i == class of its image perm[i]
    if root_out is not out and "cls" in root_out:
        rc = root_out["cls"]
        if any(rc[i] != cls[perm[i]] for i in range(n)):
            vios.append(("C13|label-dependent", {
                "kind": "e1-pair", "n": n, "state_a": root_out["st"], "state_b": st, "perm": perm,
                "classes_a": rc, "classes_b": cls, "molfile_b": text,
                "summary": f"classes depend on numbering: root {rc} vs {cls} under perm {perm}"}))
    # rounds: number of distinct classes vs initial colouring classes -> multi-round detection
    init = {}
    for a in range(n):
        init.setdefault((colors[a], tuple(sorted(colors[b] for b in adj[a]))), []).append(a)
    if len(set(cls)) > len(init):
        res["multi_round"] += 1


def _c13_root(n, st0, root_out, vios, res):
    if "cls" not in root_out:
        return
    cls = root_out["cls"]
    auts = G.automorphisms(n, st0)
    if len(auts) > 1:
        res["aut_roots"] += 1
    for p in auts:
        if any(cls[p[i]] != cls[i] for i in range(n)):
            vios.append(("C13|symmetry", {
                "kind": "e1", "n": n, "state": st0, "classes": cls, "automorphism": p,
                "summary": f"automorphism {p} maps an atom out of its class {cls}"}))
            break


# -- C12 -------------------------------------------------------------------------------------------
_IGNORED_NODE_KEYS = ("partition", "explored")
_MEANINGFUL = ("element_symbol", "atomic_number", "chg", "mass", "rad", "x_coord", "y_coord", "z_coord")
_ABSENT = "<absent>"


def _kept(d_in, d_out):
    """Every attribute of the input atom and every chemically meaningful attribute is the same on the output atom
    (absence included); additional bookkeeping keys on the output are not the property's business."""
    keys = (set(d_in) | set(_MEANINGFUL)) - set(_IGNORED_NODE_KEYS)

    def val(d, k):
        v = d.get(k, _ABSENT)
        # an explicit default (0) of charge / mass / radical means the same as an absent value (cf. C07)
        return _ABSENT if k in ("chg", "mass", "rad") and v == 0 and v is not False else v
    return all(val(d_in, k) == val(d_out, k) for k in keys)


def _c12_state(n, st, g, gc, s, vios, res, tag=""):
    """g carries the tracer x = original atom + 1 (unique), a charge pattern and a bond type pattern. Atoms are
    identified through x on both sides, so g may be labelled/ordered in any way."""
    from tucan.canonicalization import canonicalize_molecule
    from tucan.serialization import serialize_molecule

    def vio(key, msg):
        vios.append((key + tag, {"kind": "e1", "n": n, "state": st, "summary": (tag.strip("|") + ": " if tag else "") + msg}))

    before = snapshot(g)
    try:
        gc2 = canonicalize_molecule(g)
    except Exception as ex:
        vio("C12|exc", f"canonicalize_molecule raised {type(ex).__name__}: {ex}")
        return
    after = snapshot(g)
    res["exec"] += 1
    if before != after:
        vio("C12|arg-mutated", "canonicalize_molecule mutated its argument")
    nodes = sorted(gc2.nodes, key=repr)
    if nodes != list(range(n)):
        vio("C12|nodes", f"canonical nodes {nodes} are not 0..{n - 1}")
        return
    in_by_x = {int(round(d["x_coord"])): (k, d) for k, d in g.nodes(data=True)}
    out_by_x = {}
    for k, d in gc2.nodes(data=True):
        x = int(round(d.get("x_coord", -1)))
        if x in out_by_x:
            vio("C12|bijection", f"two canonical atoms carry the data of input atom x={x}")
            return
        out_by_x[x] = (k, d)
    if sorted(out_by_x) != sorted(in_by_x):
        vio("C12|bijection", f"renaming is not one-to-one: tracers {sorted(out_by_x)} vs {sorted(in_by_x)}")
        return
    for x, (k_in, d_in) in in_by_x.items():
        if not _kept(d_in, out_by_x[x][1]):
            a = {kk: vv for kk, vv in d_in.items() if kk not in _IGNORED_NODE_KEYS}
            b = {kk: vv for kk, vv in out_by_x[x][1].items() if kk not in _IGNORED_NODE_KEYS}
            vio("C12|attrs", f"atom attributes changed: {a} -> {b}")
            break
    x_of_in = {k: x for x, (k, _) in in_by_x.items()}
    x_of_out = {k: x for x, (k, _) in out_by_x.items()}
    e_in = {frozenset((x_of_in[a], x_of_in[b])): dict(d) for a, b, d in g.edges(data=True)}
    e_out = {frozenset((x_of_out[a], x_of_out[b])): dict(d) for a, b, d in gc2.edges(data=True)}
    if e_in != e_out or gc2.number_of_edges() != g.number_of_edges():
        vio("C12|bonds", f"bonds/bond types not carried: {e_in} -> {e_out}")
    # serialize must not alter chemically meaningful attributes, scratch flag back to reset value
    b4 = snapshot(gc2)
    try:
        s2 = serialize_molecule(gc2)
        s3 = serialize_molecule(gc2)
    except Exception as ex:
        vio("C12|serialize-exc", f"serialize_molecule (called twice on one graph) raised {type(ex).__name__}: {ex}")
        return
    af = snapshot(gc2)
    if _meaningful(b4) != _meaningful(af):
        vio("C12|serialize-mutates", "serialize_molecule changed chemically meaningful data of its argument")
    if s2 != s3 or (s is not None and s2 != s):
        vio("C12|repeat", f"repeated canonicalize+serialize differs: {s!r} vs {s2!r} / {s3!r}")
    # the caller owns the result: scribble on it; canonicalizing the same input again must be unaffected
    ref = snapshot(gc2)
    for _, d in gc2.nodes(data=True):
        d["element_symbol"] = "Xx"
    gc2.add_edge(10 ** 6, 10 ** 6 + 1)
    try:
        again = _strip_scratch(snapshot(canonicalize_molecule(g)))
    except Exception as ex:
        vio("C12|aliased-result", f"canonicalizing the same input again raised {type(ex).__name__}")
        return
    if again != _strip_scratch(ref):
        vio("C12|aliased-result", "canonicalizing the same input again after the caller modified the first result gives a different graph")


def _c12_derived_inputs(n, st, vios, res):
    """C12 oracle on graph-level descriptions whose labels differ from iteration order / are not 0..n-1."""
    import networkx as nx
    from tucan.canonicalization import canonicalize_molecule
    from tucan.serialization import serialize_molecule

    if n < 2:
        return
    g, gc, s, text = pipeline(n, st, rich=True)
    variants = {
        "relabel-input": lambda: nx.relabel_nodes(g, {0: n - 1, n - 1: 0}, copy=True),
        "canonical-as-input": lambda: canonicalize_molecule(g),
        "offset-labels": lambda: nx.relabel_nodes(g, {k: k + 3 for k in range(n)}, copy=True),
    }

    def rev():
        h = nx.Graph()
        h.add_nodes_from(reversed(list(g.nodes(data=True))))
        h.add_edges_from(g.edges(data=True))
        return h
    variants["reversed-insertion"] = rev

    def edited_attribute():
        # the caller labelled an atom after building the graph (derived bookkeeping attributes are now stale)
        h = g.copy()
        for k in h.nodes:
            h.nodes[k]["mass"] = 14
            break
        return h
    variants["attribute-edited-after-construction"] = edited_attribute

    def bare_bonds():
        # bonds without any attribute, as graph_from_tucan builds them: nothing may be added to them
        h = nx.Graph()
        h.add_nodes_from(g.nodes(data=True))
        h.add_edges_from(g.edges())
        return h
    variants["bonds-without-attributes"] = bare_bonds

    def extra_bond_attribute():
        # bonds carrying data the library does not know: it has to be carried along
        h = g.copy()
        for i, (a, b) in enumerate(h.edges()):
            h.edges[a, b]["note"] = f"bond{i}"
            if i % 2:
                h.edges[a, b].pop("bond_type", None)
        return h
    variants["extra-bond-attribute"] = extra_bond_attribute
    for name, mk in variants.items():
        try:
            h = mk()
        except Exception as ex:
            vios.append((f"C12|derived-exc|{name}", {"kind": "e1", "n": n, "state": st, "summary": f"{name}: {ex!r}"}))
            continue
        res["transitions"] += 1
        sub = []
        _c12_state(n, st, h, None, None if name == "attribute-edited-after-construction" else s, sub, res, tag=f"|{name}")
        for key, case in sub:
            case = dict(case)
            case["kind"] = "e1-c12-derived"
            case["variant"] = name
            vios.append((key, case))


def _meaningful(snap):
    """Atoms (in order) with their chemically meaningful attributes and tracers, bonds with their data."""
    nodes, adj, gattr = snap
    keep = set(_MEANINGFUL)
    return ([(k, [(a, b) for a, b in d if a in keep]) for k, d in nodes], adj)


def _strip_scratch(snap):
    nodes, adj, gattr = snap
    return ([(k, [(a, b) for a, b in d if a != "explored"]) for k, d in nodes], adj, gattr)


def _c12_histories(n, st0, vios, res):
    """All call histories of length <= 3 over {c: canonicalize(m), s: serialize(mc), cs: serialize(canonicalize(m))}
    on retained objects m (input) and mc (first canonical graph)."""
    from tucan.canonicalization import canonicalize_molecule
    from tucan.io import graph_from_molfile_text
    from tucan.serialization import serialize_molecule

    colors, mask = st0
    bonds = G.edges_of(n, mask)
    xs = [i + 1 for i in range(n)]
    chgs = [(i % 3) - 1 for i in range(n)]
    btypes = [1 + (j % 4) for j in range(len(bonds))]
    text = G.render_v3000(n, resolve(colors), bonds, xs, chgs, btypes)
    # the same labelled skeleton drawn with other non-identity data, canonicalized right after the first drawing:
    # the second result must carry the second drawing's charges, bond types and coordinates
    chgs2 = [1 - (i % 3) for i in range(n)]
    btypes2 = [4 - (j % 4) for j in range(len(bonds))]
    text2 = G.render_v3000(n, resolve(colors), bonds, xs, chgs2, btypes2)
    head, rest = text2.split("M  V30 BEGIN ATOM\n")
    atoms_part, tail = rest.split("M  V30 END ATOM\n")
    text2 = head + "M  V30 BEGIN ATOM\n" + atoms_part.replace(" 0 0 0", " 2.5 -1 0") + "M  V30 END ATOM\n" + tail
    m_first = graph_from_molfile_text(text)
    canonicalize_molecule(m_first)
    m_second = graph_from_molfile_text(text2)
    sub = []
    _c12_state(n, st0, m_second, None, serialize_molecule(canonicalize_molecule(m_second)), sub, res)
    for key, case in sub:
        case = dict(case)
        case["kind"] = "e1-history"
        case["summary"] = "second drawing of the same skeleton, canonicalized after the first: " + case["summary"]
        vios.append((key + "|second-drawing", case))
    # the caller edits its own graph object in place between two calls (one bond removed or added): the second result
    # must be that of the edited molecule, i.e. equal to canonicalizing an equal graph built from scratch
    if n >= 2:
        try:
            m_edit = graph_from_molfile_text(text)
            canonicalize_molecule(m_edit)
            if bonds:
                m_edit.remove_edge(*bonds[0])
                bonds_e, bt_e = bonds[1:], btypes[1:]
            else:
                m_edit.add_edge(0, n - 1, bond_type=1)
                bonds_e, bt_e = [(0, n - 1)], [1]
            got = canonicalize_molecule(m_edit)
            fresh = canonicalize_molecule(graph_from_molfile_text(G.render_v3000(n, resolve(colors), bonds_e, xs, chgs, bt_e)))
            res["exec"] += 2
            if canon_signature(got) != canon_signature(fresh) or serialize_molecule(got) != serialize_molecule(fresh):
                vios.append(("C12|in-place-edit", {"kind": "e1-history", "n": n, "state": st0, "molfile": text,
                                                   "summary": "after the caller edited a bond of its graph in place, canonicalization "
                                                              "returns a result that is not the edited molecule's"}))
        except Exception as ex:
            vios.append(("C12|in-place-edit|exc", {"kind": "e1-history", "n": n, "state": st0, "molfile": text,
                                                   "summary": f"canonicalizing an edited graph raised {type(ex).__name__}: {ex}"}))
    ref_m = graph_from_molfile_text(text)
    ref_mc = canonicalize_molecule(ref_m)
    ref_sig = snapshot(ref_mc)
    ref_s = serialize_molecule(canonicalize_molecule(ref_m))
    res["exec"] += 1
    for L in (1, 2, 3):
        for hist in product("csx", repeat=L):
            m = graph_from_molfile_text(text)
            mc = canonicalize_molecule(m)
            ok = True
            try:
                for op in hist:
                    if op == "c":
                        r = canonicalize_molecule(m)
                        ok = snapshot(r) == ref_sig
                    elif op == "s":
                        ok = serialize_molecule(mc) == ref_s
                    else:
                        ok = serialize_molecule(canonicalize_molecule(m)) == ref_s
                    if not ok:
                        break
            except Exception:
                ok = False
            res["hist_exec"] += 1
            res["transitions"] += L
            if not ok or _meaningful(snapshot(m)) != _meaningful(snapshot(ref_m)):
                vios.append(("C12|history", {"kind": "e1-history", "n": n, "state": st0, "history": hist,
                                             "molfile": text,
                                             "summary": f"history {''.join(hist)} gives a different result or mutates the input"}))
                return
