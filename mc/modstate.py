"""Process-wide mutable state of TUCAN + ANTLR runtime: reset, canonical fingerprint.

Inventory (from reading the code): tucanLexer.decisionsToDFA (class-level DFA cache), tucanParser.decisionsToDFA
and tucanParser.sharedContextCache (never filled: the grammar is LL(1)), ATNState.nextTokenWithinRule memos on the
shared ATNs, and the global `random` generator (permute_molecule reseeds it)."""
from __future__ import annotations

import hashlib
import random


def _classes():
    from tucan.parser.tucanLexer import tucanLexer
    from tucan.parser.tucanParser import tucanParser

    return tucanLexer, tucanParser


def reset(memo="cold"):
    """memo: 'cold' clears the nextTokenWithinRule memos too; 'keep' leaves them."""
    from antlr4.dfa.DFA import DFA
    from antlr4.PredictionContext import PredictionContextCache

    L, P = _classes()
    L.decisionsToDFA = [DFA(ds, i) for i, ds in enumerate(L.atn.decisionToState)]
    P.decisionsToDFA = [DFA(ds, i) for i, ds in enumerate(P.atn.decisionToState)]
    P.sharedContextCache = PredictionContextCache()
    if memo == "cold":
        for atn in (L.atn, P.atn):
            for s in atn.states:
                if s is not None:
                    s.nextTokenWithinRule = None
    random.seed(12345)
    try:
        from . import c14_workload

        c14_workload.reset_retained()
    except Exception:
        pass


def warm_memo():
    """Fill the nextTokenWithinRule memos by parsing a few strings, then reset the DFA caches only."""
    from tucan.parser.parser import graph_from_tucan

    for s in ("C2H6O/(1-7)(2-7)(3-7)(4-8)(5-8)(6-9)(7-8)(8-9)/(1:mass=2,rad=3)", "/", "ClH/(1-2)"):
        graph_from_tucan(s)
    for bad in ("C/(", "C/(1", "C/(1-", "C/(1-2", "C//(", "C//(1", "C//(1:", "C//(1:mass", "C//(1:mass=", "C//(1:mass=2", "C//(1:mass=2,", "C2", "C2/(1-2)/(1:rad=2)x"):
        try:
            graph_from_tucan(bad)
        except Exception:
            pass
    reset(memo="keep")


def fingerprint(full=False):
    """Canonical form of the module state (property-relevant fields only)."""
    L, P = _classes()
    lex = []
    for dfa in L.decisionsToDFA:
        lex.append(_dfa_canon(dfa))
    par = tuple(len(d.states) for d in P.decisionsToDFA if len(d.states))
    memoL = tuple(s.stateNumber for s in L.atn.states if s is not None and s.nextTokenWithinRule is not None)
    memoP = tuple(s.stateNumber for s in P.atn.states if s is not None and s.nextTokenWithinRule is not None)
    rnd = hashlib.sha256(repr(random.getstate()).encode()).hexdigest()[:12]
    ctx = len(P.sharedContextCache.cache)
    # graph objects the harness itself keeps across calls (c14_workload._RETAINED) are part of the state
    from . import c14_workload

    ret = tuple(sorted((k, c14_workload.graph_repr(g)) for k, g in c14_workload._RETAINED.items()))
    t = (tuple(lex), par, memoL, memoP, rnd, ctx, ret)
    if full:
        return t
    return hashlib.sha256(repr(t).encode()).hexdigest()[:20]


def _dfa_canon(dfa):
    """States named by BFS order from s0; edges by symbol; plus number of states in the table (dangling ones)."""
    s0 = dfa.s0
    if s0 is None:
        return ("empty", len(dfa.states))
    order = {id(s0): 0}
    queue = [s0]
    out = []
    while queue:
        s = queue.pop(0)
        edges = []
        if s.edges is not None:
            for sym, t in enumerate(s.edges):
                if t is None:
                    continue
                if getattr(t, "stateNumber", None) == 0x7FFFFFFF:
                    edges.append((sym, "ERROR"))
                    continue
                if id(t) not in order:
                    order[id(t)] = len(order)
                    queue.append(t)
                edges.append((sym, order[id(t)]))
        cfg = tuple(sorted((c.state.stateNumber, c.alt) for c in s.configs)) if s.configs is not None else ()
        out.append((s.isAcceptState, s.prediction if s.isAcceptState else None, cfg, tuple(edges)))
    return (tuple(out), len(dfa.states))


def summary():
    L, P = _classes()
    return {
        "lexer_dfa_states": sum(len(d.states) for d in L.decisionsToDFA),
        "parser_dfa_states": sum(len(d.states) for d in P.decisionsToDFA),
        "memo_lexer": sum(1 for s in L.atn.states if s is not None and s.nextTokenWithinRule is not None),
        "memo_parser": sum(1 for s in P.atn.states if s is not None and s.nextTokenWithinRule is not None),
    }
