"""C03, C05, C11: oracles on the strings emitted for every isomorphism class of the E1 spaces (one real
pipeline run per orbit root and one per farthest orbit member), plus formula/size families."""
from __future__ import annotations

from itertools import combinations, permutations, product

from . import e1
from . import graphs as G
from .common import REPO, Report, pmap
from .ref import iso
from .ref.periodic import SYMBOLS, Z

RULES = {
    "C03": "one string per isomorphism class of the E1 spaces (emitted from the orbit root and from the farthest "
           "renumbering) + formula/size families; parse must land in the same orbit (orbit-table lookup; own "
           "isomorphism search above the bound) and re-emit the identical string; non-trivial = strings with >=2 "
           "element blocks or an attribute block",
    "C05": "every string emitted for the E1 classes and the formula/count/zero-attribute families, judged by the "
           "EBNF recogniser + layout validator; non-trivial = strings with >=2 element terms or tuples or attributes",
    "C11": "for the canonical string of every class: all tuple permutations (m<=5), all endpoint-swap subsets "
           "(m<=6), each tuple duplicated, attribute blocks permuted/split/merged, every renumbering inside element "
           "blocks (product <=120 quick / <=5040 thorough, else all transpositions); each respelling first confirmed by the reference reader; non-trivial = respellings "
           "whose text differs from the canonical one",
}


def encode_graph(g):
    """networkx graph with nodes 0..n-1 -> (n, colours, bonds) in my own terms, or raises ValueError."""
    nodes = list(g.nodes)
    n = len(nodes)
    if sorted(nodes) != list(range(n)):
        raise ValueError(f"nodes are {nodes[:10]}")
    cols = []
    for i in range(n):
        d = g.nodes[i]
        cols.append((d.get("element_symbol"), d.get("mass") or None, d.get("rad") or None))
    bonds = sorted(tuple(sorted(e)) for e in g.edges())
    return n, cols, bonds


def tucan_of(g):
    from tucan.canonicalization import canonicalize_molecule
    from tucan.serialization import serialize_molecule

    return serialize_molecule(canonicalize_molecule(g))


def adj_of(n, bonds):
    a = [[] for _ in range(n)]
    for i, j in bonds:
        a[i].append(j)
        a[j].append(i)
    return a


# ----------------------------------------------------------------------------------------------
# per-string oracles
# ----------------------------------------------------------------------------------------------
def check_c03(s, n, cols, bonds, orb=None):
    """cols/bonds: the molecule that produced s. orb: orbit table (set of states) or None."""
    from tucan.parser.parser import graph_from_tucan

    try:
        g2 = graph_from_tucan(s)
    except Exception as ex:
        return f"emitted string is rejected by the parser: {type(ex).__name__}: {str(ex)[:100]}"
    try:
        n2, cols2, bonds2 = encode_graph(g2)
    except ValueError as ex:
        return f"parsed graph malformed: {ex}"
    if n2 != n or len(bonds2) != len(bonds):
        return f"atom/bond count changed: {n},{len(bonds)} -> {n2},{len(bonds2)}"
    if orb is not None:
        try:
            st2 = (tuple(e1.CI[c] for c in cols2), G.mask_of(n, bonds2))
        except KeyError:
            return f"parsed atoms carry colours the molecule does not have: {cols2}"
        if st2 not in orb:
            return "parse(tucan(G)) is not isomorphic to G (not in G's orbit)"
    else:
        if not iso.isomorphic(cols, adj_of(n, bonds), cols2, adj_of(n, bonds2)):
            return "parse(tucan(G)) is not isomorphic to G (own isomorphism search)"
    s2 = tucan_of(g2)
    if s2 != s:
        return f"not a fixed point: tucan(parse(s)) = {s2!r}"
    # the caller owns the parsed graph: scribble on it; a second parse must still reconstruct the molecule
    from .c14_workload import scribble

    scribble(g2)
    try:
        n3, cols3, bonds3 = encode_graph(graph_from_tucan(s))
    except Exception as ex:
        return f"second parse of the same string fails after the caller modified the first result: {type(ex).__name__}"
    if (n3, cols3, bonds3) != (n2, cols2, bonds2):
        return "second parse of the same string differs after the caller modified the first result"
    return None


def check_c05(s, n, cols, bonds):
    from .ref import layout, tucan_ref

    return layout.validate(s, cols, bonds, tucan_ref.recognizer(REPO))


def respellings(s, tier):
    """Meaning-preserving respellings of an accepted string, from the reference denotation."""
    from .ref import tucan_ref as T

    ref = T.read(s, REPO)
    if ref[0] != "accept":
        return
    _, atoms, bondset, attrs = ref
    parts = s.split("/")
    formula = parts[0]
    tl = [tuple(int(x) for x in t.split("-")) for t in parts[1][1:-1].split(")(")] if parts[1] else []
    al = sorted((i + 1, sorted(d.items())) for i, d in attrs.items())

    def spell(tuples, blocks):
        out = formula + "/" + "".join(f"({a}-{b})" for a, b in tuples)
        if blocks:
            out += "/" + "".join(f"({i}:{','.join(f'{k}={v}' for k, v in kv)})" for i, kv in blocks)
        return out

    m = len(tl)
    # tuple order
    if m <= 5:
        for p in permutations(tl):
            yield ("tuple-order", spell(p, al), None)
    else:
        for i, j in combinations(range(m), 2):
            p = list(tl)
            p[i], p[j] = p[j], p[i]
            yield ("tuple-order", spell(p, al), None)
        yield ("tuple-order", spell(tl[::-1], al), None)
    # endpoint swaps
    if m <= 6:
        for flips in product((0, 1), repeat=m):
            yield ("endpoint-swap", spell([(b, a) if f else (a, b) for (a, b), f in zip(tl, flips)], al), None)
    else:
        for j in range(m):
            p = list(tl)
            p[j] = (p[j][1], p[j][0])
            yield ("endpoint-swap", spell(p, al), None)
        yield ("endpoint-swap", spell([(b, a) for a, b in tl], al), None)
    # duplicates
    for j in range(m):
        yield ("duplicate", spell(tl + [tl[j]], al), None)
        yield ("duplicate", spell(tl[:j + 1] + [(tl[j][1], tl[j][0])] + tl[j + 1:], al), None)
    # attribute blocks: permuted, split, property order
    if al:
        if len(al) <= 4:
            for p in permutations(al):
                yield ("attr-order", spell(tl, p), None)
        else:
            yield ("attr-order", spell(tl, al[::-1]), None)
        split = [(i, [kv]) for i, kvs in al for kv in kvs]
        yield ("attr-split", spell(tl, split), None)
        yield ("attr-split", spell(tl, split[::-1]), None)
        yield ("attr-proporder", spell(tl, [(i, kvs[::-1]) for i, kvs in al]), None)
        if not tl:
            yield ("empty-tuples", spell([], al), None)
    else:
        yield ("empty-attr-section", s + "/", None)
    # renumbering inside element blocks
    n = len(atoms)
    blocks = []
    i = 0
    while i < n:
        j = i
        while j < n and atoms[j] == atoms[i]:
            j += 1
        blocks.append(list(range(i, j)))
        i = j
    total = 1
    for b in blocks:
        for k in range(2, len(b) + 1):
            total *= k
    if total <= (120 if tier == "quick" else 5040):
        perms = product(*[permutations(b) for b in blocks])
    else:
        # all single transpositions inside blocks + block reversals
        def gen():
            ident = list(range(n))
            for b in blocks:
                for x, y in combinations(b, 2):
                    p = list(ident)
                    p[x], p[y] = y, x
                    yield [tuple(p)]
            yield [tuple(x for b in blocks for x in reversed(b))]
        perms = gen()
    for ps in perms:
        p = [x for part in ps for x in part]  # position k (old index k) -> new index p[k]? define old->new
        if len(p) != n:
            continue
        new = {old + 1: p[old] + 1 for old in range(n)}
        t2 = [(new[a], new[b]) for a, b in tl]
        a2 = [(new[i], kv) for i, kv in al]
        yield ("renumber", spell(t2, a2), new)


def check_c11(s, tier, counters):
    """s: canonical string of a class. Returns list of (key, description, respelling)."""
    from tucan.parser.parser import graph_from_tucan
    from .ref import tucan_ref as T

    out = []
    base = T.read(s, REPO)
    seen = set()
    for kind, s2, renum in respellings(s, tier):
        if s2 in seen:
            continue
        seen.add(s2)
        counters["respellings"] += 1
        if s2 != s:
            counters["nontrivial"] += 1
        # reference confirms: accepted, same denotation (up to the renumbering we applied)
        r2 = T.read(s2, REPO)
        if r2[0] != "accept":
            raise AssertionError(f"harness bug: respelling {s2!r} of {s!r} not valid: {r2}")
        if renum is None:
            if r2[1:] != base[1:]:
                raise AssertionError(f"harness bug: respelling {s2!r} changes the denotation of {s!r}")
        else:
            _, atoms, bonds, attrs = base
            if r2[1] != atoms or r2[2] != {frozenset(renum[x + 1] - 1 for x in b) for b in bonds} or \
                    r2[3] != {renum[i + 1] - 1: d for i, d in attrs.items()}:
                raise AssertionError(f"harness bug: renumbering {s2!r} is not the permuted denotation of {s!r}")
        try:
            n1 = tucan_of(graph_from_tucan(s2))
        except Exception as ex:
            out.append((f"C11|{kind}|exc", f"{s2!r} (respelling of {s!r}) raises {type(ex).__name__}: {str(ex)[:80]}", s2))
            continue
        counters["exec"] += 1
        if n1 != s:
            out.append((f"C11|{kind}", f"norm({s2!r}) = {n1!r} but the canonical string is {s!r}", s2))
            continue
        # idempotence: here n1 == s, so norm(norm(s')) = norm(s); evaluated once per class below
    try:
        ns = tucan_of(graph_from_tucan(s))
        counters["exec"] += 1
        if ns != s:
            out.append(("C11|idempotence", f"norm({s!r}) = {ns!r}: normalisation is not idempotent", s))
    except Exception as ex:
        out.append(("C11|idempotence|exc", f"norm({s!r}) raises {type(ex).__name__}", s))
    return out


# ----------------------------------------------------------------------------------------------
# E1-roots worker
# ----------------------------------------------------------------------------------------------
def run_roots_shard(job):
    prop, shard, tier = job
    n, ms, e = shard
    nb = n * (n - 1) // 2
    res = {"states": 0, "transitions": 0, "exec": 0, "orbits": 0, "vios": [], "nontrivial": 0, "samples": [],
           "respellings": 0}
    visited = set()
    for colors in G.distinct_arrangements(ms):
        for mask in G.masks_with_popcount(nb, e):
            st0 = (colors, mask)
            if st0 in visited:
                continue
            orb, actions = G.orbit(n, st0)
            visited.update(orb)
            res["transitions"] += actions
            res["states"] += len(orb)
            res["orbits"] += 1
            last = next(reversed(orb))
            emitted = {}
            for st in ([st0] if last == st0 else [st0, last]):
                g, gc, s, text = e1.pipeline(n, st)
                res["exec"] += 1
                emitted.setdefault(s, (st, text))
                if prop in ("C03", "C05") and n >= 2:
                    # strings emitted for graph-level descriptions of the same molecule (iteration order != label order)
                    import networkx as nx
                    from tucan.canonicalization import canonicalize_molecule
                    from tucan.serialization import serialize_molecule

                    for h in (gc, nx.relabel_nodes(g, {0: n - 1, n - 1: 0}, copy=True),
                              nx.relabel_nodes(g, {k: 2 * k + 3 for k in range(n)}, copy=True)):  # labels not 0..n-1
                        try:
                            s_d = serialize_molecule(canonicalize_molecule(h))
                        except Exception as ex:
                            res["vios"].append((f"{prop}|derived-exc", {"kind": "string-of-molfile", "n": n, "molfile": text,
                                                                       "summary": f"graph-level description raised {ex!r}"}))
                            continue
                        res["exec"] += 1
                        emitted.setdefault(s_d, (st, text))
            for s, (st, text) in emitted.items():
                cols = e1.resolve(st[0])
                bonds = G.edges_of(n, st[1])
                if prop == "C03":
                    msg = check_c03(s, n, cols, bonds, orb)
                    res["exec"] += 1
                    if len({c[0] for c in cols}) >= 2 or s.count("/") == 2:
                        res["nontrivial"] += 1
                    if msg:
                        res["vios"].append(("C03|" + msg.split(":")[0][:50], {
                            "kind": "string-of-molfile", "n": n, "molfile": text, "tucan": s, "summary": f"{s!r}: {msg}"}))
                elif prop == "C05":
                    msg = check_c05(s, n, cols, bonds)
                    if len({c[0] for c in cols}) >= 2 or bonds or s.count("/") == 2:
                        res["nontrivial"] += 1
                    if msg:
                        res["vios"].append(("C05|" + msg.split(":")[0][:50], {
                            "kind": "string-of-molfile", "n": n, "molfile": text, "tucan": s, "summary": f"{s!r}: {msg}"}))
                elif prop == "C11":
                    cnt = {"respellings": 0, "nontrivial": 0, "exec": 0}
                    for key, msg, s2 in check_c11(s, tier, cnt):
                        res["vios"].append((key, {"kind": "respelling", "n": n, "canonical": s, "respelling": s2,
                                                  "summary": msg}))
                    res["respellings"] += cnt["respellings"]
                    res["nontrivial"] += cnt["nontrivial"]
                    res["exec"] += cnt["exec"]
                    res["transitions"] += cnt["respellings"]
            if not res["samples"]:
                res["samples"].append({"n": n, "tucan": next(iter(emitted))})
    return res


# ----------------------------------------------------------------------------------------------
# families beyond the E1 colour alphabet (formula order, index widths, counts)
# ----------------------------------------------------------------------------------------------
def family_molecules(prop, tier):
    """Yields (name, cols, bonds)."""
    plain = lambda el: (el, None, None)
    for s in SYMBOLS:
        yield (f"atom {s}", [plain(s)], [])
        yield (f"labelled atom {s}", [(s, 7, 2)], [])
    pairs = list(combinations(SYMBOLS, 2))
    for a, b in pairs:
        yield (f"bonded pair {a}-{b}", [plain(a), plain(b)], [(0, 1)])
    for a, b in pairs:
        if "C" not in (a, b) and "H" not in (a, b) and (Z[a] + Z[b]) % (1 if tier == "thorough" else 7) == 0:
            yield (f"C,H,{a},{b} chain", [plain(b), plain("H"), plain(a), plain("C")], [(0, 1), (1, 2), (2, 3)])
    yield ("chain of all 118 elements", [plain(s) for s in reversed(SYMBOLS)], [(i, i + 1) for i in range(117)])
    yield ("all 118 elements isolated, each labelled", [(s, 300, 3) for s in sorted(SYMBOLS)], [])
    counts = (1, 2, 9, 10, 11, 99, 100, 101) + ((1000,) if tier == "thorough" else ())
    for k in counts:
        for el in ("C", "H", "Cl", "Og"):
            yield (f"{k} isolated {el}", [plain(el)] * k, [])
        yield (f"{k} isolated C + {k} H + 1 O", [plain("H")] * k + [plain("O")] + [plain("C")] * k, [])
    for k in (10, 11, 100, 101):
        # chain and star with labels on chosen atoms -> multi-digit indices, several labelled atoms per element
        cols = [plain("C")] * k
        cols[0] = ("C", 13, None)
        cols[k // 2] = ("C", None, 2)
        cols[k - 1] = ("C", 14, 3)
        yield (f"labelled chain C{k}", list(cols), [(i, i + 1) for i in range(k - 1)])
        yield (f"labelled star C{k}", list(cols), [(0, i) for i in range(1, k)])
        cols2 = [plain("H")] * k + [plain("C")] * k
        cols2[3] = ("H", 2, None)
        cols2[k - 1] = ("H", 3, None)
        cols2[k + 1] = ("C", 13, None)
        yield (f"alkane-like comb {k}", cols2, [(k + i, k + i + 1) for i in range(k - 1)] + [(i, k + i) for i in range(k)])
    # sparse multi-component molecules: every set of 2..3 disjoint bonds (and every single bond + one more) on 5-7 atoms
    # of several elements: few bonds spread over distant indices
    atom_lists = [["H", "C", "C", "N", "O"], ["H", "C", "N", "O", "Na", "Cl"], ["H", "H", "C", "N", "O", "Cl"],
                  ["C", "C", "O", "O", "Na", "Cl"], ["H", "C", "N", "O", "F", "Na", "Cl"]]

    def matchings(vs, k):
        if k == 0:
            yield []
            return
        for i in range(len(vs)):
            for j in range(i + 1, len(vs)):
                rest = [v for v in vs[i + 1:] if v != vs[j]]
                for m in matchings(rest, k - 1):
                    yield [(vs[i], vs[j])] + m
    for els in atom_lists:
        nn = len(els)
        for k in (2, 3):
            for mt in matchings(list(range(nn)), k):
                yield (f"sparse {'+'.join(els)} bonds {mt}", [plain(e) for e in els], mt)
    for k in (10, 12, 16, 17) if tier == "quick" else (9, 10, 11, 12, 16, 17, 18, 24, 25, 33):
        # every pair of labelled positions on a chain: labelled indices on both sides of 9/10, colliding mod 8, ...
        for i, j in combinations(range(k), 2):
            cols = [plain("C")] * k
            cols[i] = ("C", 13, None)
            cols[j] = ("C", 14, 2) if (i + j) % 2 else ("C", 14, None)
            yield (f"chain C{k} labelled at {i},{j}", cols, [(x, x + 1) for x in range(k - 1)])
    if tier == "thorough":
        for a, b, c in combinations(SYMBOLS, 3):
            if (Z[a] * 7 + Z[b] * 3 + Z[c]) % 11 == 0:
                yield (f"isolated {a},{b},{c}", [plain(c), plain(a), plain(b)], [])


def run_family_chunk(job):
    prop, items = job
    from tucan.io import graph_from_molfile_text

    res = {"exec": 0, "vios": [], "n": 0, "nontrivial": 0, "samples": []}
    for name, cols, bonds in items:
        n = len(cols)
        text = G.render_v3000(n, cols, bonds)
        try:
            s = tucan_of(graph_from_molfile_text(text))
        except Exception as ex:
            res["vios"].append((f"{prop}|family-exc|{type(ex).__name__}", {
                "kind": "string-of-molfile", "n": n, "molfile": text, "summary": f"{name}: pipeline raised {ex!r}"}))
            continue
        res["exec"] += 1
        res["n"] += 1
        if prop == "C03":
            msg = check_c03(s, n, cols, bonds, None)
            res["exec"] += 1
        else:
            msg = check_c05(s, n, cols, bonds)
        if len({c[0] for c in cols}) >= 2 or s.count("/") == 2:
            res["nontrivial"] += 1
        if msg:
            res["vios"].append((f"{prop}|" + msg.split(":")[0][:50], {
                "kind": "string-of-molfile", "n": n, "molfile": text, "tucan": s,
                "summary": f"{name}: {s[:120]!r}: {msg}"}))
        if not res["samples"]:
            res["samples"].append({"family": name, "tucan": s[:200]})
    return res


def run_c11_family_chunk(job):
    from tucan.io import graph_from_molfile_text

    tier, items = job
    res = {"n": 0, "exec": 0, "vios": [], "respellings": 0, "nontrivial": 0}
    for name, cols, bonds in items:
        n = len(cols)
        s = tucan_of(graph_from_molfile_text(G.render_v3000(n, cols, bonds)))
        res["n"] += 1
        res["exec"] += 1
        cnt = {"respellings": 0, "nontrivial": 0, "exec": 0}
        for key, msg, s2 in check_c11(s, "quick", cnt):
            res["vios"].append((key, {"kind": "respelling", "n": n, "canonical": s, "respelling": s2, "summary": f"{name}: {msg}"}))
        for k in ("respellings", "nontrivial", "exec"):
            res[k] += cnt[k]
    return res


def zero_attribute_texts():
    """C05: molecules read from texts carrying explicit zero attributes (V3000 and V2000)."""
    out = []
    for props in ("MASS=0", "RAD=0", "CHG=0", "MASS=0 RAD=0", "RAD=0 MASS=13", "CHG=0 RAD=2 MASS=0"):
        t = "\n".join(["", "  mc", "", "  0  0  0     0  0            999 V3000", "M  V30 BEGIN CTAB",
                       "M  V30 COUNTS 2 1 0 0 0", "M  V30 BEGIN ATOM", f"M  V30 1 C 0 0 0 0 {props}",
                       "M  V30 2 H 0 0 0 0", "M  V30 END ATOM", "M  V30 BEGIN BOND", "M  V30 1 1 1 2",
                       "M  V30 END BOND", "M  V30 END CTAB", "M  END", ""])
        mass = 13 if "MASS=13" in props else None
        rad = 2 if "RAD=2" in props else None
        out.append((f"V3000 {props}", t, [("C", mass, rad), ("H", None, None)], [(0, 1)]))
    for line, mass, rad in (("M  ISO  1   1   0", None, None), ("M  RAD  1   1   0", None, None),
                            ("M  CHG  1   1   0", None, None), ("M  ISO  2   1   0   2   2", None, None)):
        t = "\n".join(["", "  mc", "", "  2  1  0  0  0  0  0  0  0  0999 V2000",
                       "    0.0000    0.0000    0.0000 C   0  0  0  0  0  0  0  0  0  0  0  0",
                       "    0.0000    0.0000    0.0000 H   0  0  0  0  0  0  0  0  0  0  0  0",
                       "  1  2  1  0  0  0  0", line, "M  END", ""])
        cols = [("C", None, None), ("H", 2 if "2   2" in line else None, None)]
        out.append((f"V2000 {line}", t, cols, [(0, 1)]))
    return out


def run(prop: str, tier: str) -> int:
    rep = Report(prop, tier)
    if tier == "thorough":
        spaces = e1.THOROUGH_SPACES
        if prop == "C11":
            spaces = e1.QUICK_SPACES + [(4, e1.A7, None)]
    else:
        spaces = e1.QUICK_SPACES
        if prop == "C11":
            spaces = [(1, e1.A7, None), (2, e1.A7, None), (3, e1.A7, None), (4, e1.A5, None),
                      (5, e1.alphabet(G.C, G.CRAD), None), (5, e1.A2, None), (6, e1.A1, None),
                      (3, e1.alphabet(G.O, G.NO256, G.LR, G.MD256, G.NO), None), (4, e1.alphabet(G.O, G.NO256, G.NO), None)]
    shards = e1.space_shards(spaces)
    for shard, res in pmap(run_roots_shard, [(prop, sh, tier) for sh in shards]):
        rep.add(states=res["states"], transitions=res["transitions"], traces_validated_against_impl=res["exec"],
                orbits=res["orbits"], distinct_nontrivial=res["nontrivial"])
        if prop == "C11":
            rep.add(respellings=res["respellings"])
        for key, case in res["vios"]:
            rep.violation(key, case)
        for s in res["samples"]:
            rep.sample(s)
    if prop in ("C03", "C05"):
        items = list(family_molecules(prop, tier))
        chunks = [items[i::64] for i in range(64)]
        fam = 0
        for _, res in pmap(run_family_chunk, [(prop, c) for c in chunks if c]):
            fam += res["n"]
            rep.add(states=res["n"], transitions=res["n"], traces_validated_against_impl=res["exec"],
                    distinct_nontrivial=res["nontrivial"])
            for key, case in res["vios"]:
                rep.violation(key, case)
            for s in res["samples"][:1]:
                rep.sample(s, cap=12)
        rep.add(family_molecules=fam)
    if prop == "C11":
        items = [it for it in family_molecules("C11", tier)
                 if it[0].startswith(("chain C10 labelled", "chain C17 labelled"))
                 or it[0] in ("labelled chain C11", "labelled star C10", "alkane-like comb 10")]
        chunks = [items[i::48] for i in range(48)]
        for _, res in pmap(run_c11_family_chunk, [(tier, c) for c in chunks if c]):
            rep.add(states=res["n"], transitions=res["respellings"], traces_validated_against_impl=res["exec"],
                    distinct_nontrivial=res["nontrivial"], respellings=res["respellings"], family_strings=res["n"])
            for key, case in res["vios"]:
                rep.violation(key, case)
    if prop == "C03":
        from . import zoo

        zoo.run_all(rep, prop, tier)
    if prop in ("C05", "C03"):
        from tucan.io import graph_from_molfile_text

        for name, text, cols, bonds in zero_attribute_texts():
            s = tucan_of(graph_from_molfile_text(text))
            rep.add(states=1, transitions=1, traces_validated_against_impl=1, zero_attribute_texts=1)
            msg = check_c05(s, len(cols), cols, bonds) if prop == "C05" else check_c03(s, len(cols), cols, bonds, None)
            if msg:
                rep.violation(f"{prop}|explicit-zero|" + name.split()[0], {
                    "kind": "string-of-molfile", "n": len(cols), "molfile": text, "tucan": s,
                    "expect_cols": cols, "expect_bonds": bonds, "summary": f"{name}: {s!r}: {msg}"})
    rep.add(spaces=[f"n={n} alphabet={len(a)} maxdev={d}" for n, a, d in spaces], rule=RULES[prop])
    rep.assumptions.append("orbit tables (own closure) below the bound, own isomorphism search for the families")
    return rep.finish()


def replay(prop, rec):
    from tucan.io import graph_from_molfile_text

    if rec["kind"] == "respelling":
        cnt = {"respellings": 0, "nontrivial": 0, "exec": 0}
        out = check_c11(rec["canonical"], "thorough", cnt)
        hit = [m for k, m, s2 in out if s2 == rec["respelling"]]
        return bool(hit), "; ".join(hit) or f"respelling {rec['respelling']!r} now normalises to {rec['canonical']!r}"
    import networkx as nx
    from tucan.canonicalization import canonicalize_molecule

    g = graph_from_molfile_text(rec["molfile"])
    if "expect_cols" in rec:
        cols = [tuple(c) for c in rec["expect_cols"]]
        bonds = [tuple(b) for b in rec["expect_bonds"]]
        n = len(cols)
    else:
        n, cols, bonds = encode_graph(g)
    emitted = [tucan_of(graph_from_molfile_text(rec["molfile"]))]
    if n >= 2 and "expect_cols" not in rec:
        gc = canonicalize_molecule(graph_from_molfile_text(rec["molfile"]))
        emitted.append(tucan_of(gc))
        emitted.append(tucan_of(nx.relabel_nodes(g, {0: n - 1, n - 1: 0}, copy=True)))
    msgs = []
    for s in dict.fromkeys(emitted):
        msg = check_c03(s, n, cols, bonds, None) if prop == "C03" else check_c05(s, n, cols, bonds)
        if msg:
            msgs.append(f"{s[:200]!r}: {msg}")
    return bool(msgs), "; ".join(msgs) or f"emitted strings {emitted} are fine"
